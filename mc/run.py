"""Entry point: python -m mc.run <Cxx> [quick|thorough] | <Cxx> --replay <file>

Exit status: 0 property held on everything explored (KNOWN-FINDING lines allowed),
1 at least one VIOLATION that known_findings.jsonl does not list, 2 harness error
(negative control failed, nondeterminism, cap hit, tool missing) - never a verdict.
"""
import importlib
import json
import os
import random
import sys
import time
import traceback

from . import findings
from .engine import Ctx, HarnessError, MAX_SAMPLES

ROOT = findings.ROOT
EVIDENCE_SCHEMA = '/root/.vp/EVIDENCE.schema.json'


class Result(object):
    """What a property module returns from run(tier, seed)."""

    def __init__(self, ctx, level, rule, evaluations, distinct_nontrivial,
                 states=None, transitions=None, traces_validated=None,
                 exhaustive=True, bounds=None, assumptions=None, extra=None,
                 explanation=None, programs=None, disagreements_checked=None):
        self.ctx = ctx
        self.level = level
        self.rule = rule
        self.evaluations = evaluations
        self.distinct_nontrivial = distinct_nontrivial
        self.states = states
        self.transitions = transitions
        self.traces_validated = traces_validated
        self.exhaustive = exhaustive
        self.bounds = bounds or {}
        self.assumptions = assumptions or []
        self.extra = extra or {}
        self.explanation = explanation
        self.programs = programs
        self.disagreements_checked = disagreements_checked


def _shorten(x, limit=1500):
    t = json.dumps(x, sort_keys=True, ensure_ascii=True, default=repr)
    if len(t) <= limit:
        return json.loads(t)
    return {'truncated_json': t[:limit] + '...'}


def write_evidence(prop, tier, seed, res, wall, nviol, known_lines):
    ctx = res.ctx
    rnd = random.Random(seed)
    samples = sorted(ctx.samples, key=lambda rc: repr(rc[0]))
    rnd.shuffle(samples)
    samples = [_shorten(c) for _, c in samples[:MAX_SAMPLES]]
    cov = dict(
        evaluations=int(res.evaluations),
        distinct_nontrivial=int(res.distinct_nontrivial),
        rule=res.rule,
        samples=samples,
        exhaustive=bool(res.exhaustive),
        bounds=res.bounds,
        counters={k: v for k, v in sorted(ctx.counters.items()) if not k.startswith('_')},
        reached={k: sorted(map(str, v))[:60] for k, v in sorted(ctx.sets.items()) if not k.startswith('_')},
        reached_sizes={k: len(v) for k, v in sorted(ctx.sets.items()) if not k.startswith('_')},
        notes=ctx.notes[:40],
        known_findings_reported=known_lines,
    )
    if res.states is not None:
        cov['states'] = int(res.states)
    if res.transitions is not None:
        cov['transitions'] = int(res.transitions)
    if res.traces_validated is not None:
        cov['traces_validated_against_impl'] = int(res.traces_validated)
    if res.explanation:
        cov['explanation'] = res.explanation
    if res.programs is not None:
        cov['programs'] = int(res.programs)
    if res.disagreements_checked is not None:
        cov['disagreements_checked'] = int(res.disagreements_checked)
    cov.update(res.extra)
    doc = dict(property_id=prop, tier=tier, seed=int(seed), level=res.level, coverage=cov,
               assumptions=res.assumptions, wall_s=round(wall, 2), violations=int(nviol))
    try:
        import jsonschema
        with open(EVIDENCE_SCHEMA) as f:
            jsonschema.validate(doc, json.load(f))
    except ImportError:
        pass
    except FileNotFoundError:
        pass
    os.makedirs(os.path.join(ROOT, 'evidence'), exist_ok=True)
    path = os.path.join(ROOT, 'evidence', prop + '.json')
    with open(path, 'w') as f:
        json.dump(doc, f, indent=1, sort_keys=True)
        f.write('\n')
    return path


def classify(prop, ctx):
    """Split the violations of a run into known findings and new violations."""
    recs = findings.load_known()
    known, new = [], []
    for fp in sorted(ctx.viol):
        v = ctx.viol[fp]
        r = findings.match_known(prop, fp, recs)
        if r is not None:
            known.append((fp, v, r))
        else:
            new.append((fp, v))
    return known, new


def main(argv=None):
    argv = list(sys.argv[1:] if argv is None else argv)
    if not argv:
        print(__doc__)
        return 2
    prop = argv[0]
    seed = int(os.environ.get('VERIF_SEED', '0') or 0)
    try:
        mod = importlib.import_module('mc.props.' + prop)
    except ImportError:
        traceback.print_exc()
        print('HARNESS-ERROR: no check module for %s' % prop)
        return 2

    if len(argv) >= 3 and argv[1] == '--replay':
        with open(argv[2]) as f:
            doc = json.load(f)
        ctx = Ctx()
        mod.replay(doc['case'], ctx)
        known, new = classify(prop, ctx)
        for fp, v, r in known:
            print('KNOWN-FINDING: property=%s %s [%s]' % (prop, r.get('what', v['what']), fp))
        for fp, v in new:
            print('VIOLATION property=%s replay=%s' % (prop, argv[2]))
            print('  fingerprint: %s' % fp)
            print('  what: %s' % v['what'])
        if not ctx.viol:
            print('replay: no violation reproduced')
        return 1 if new else 0

    tier = argv[1] if len(argv) > 1 else os.environ.get('VERIF_TIER', 'quick')
    if tier not in ('quick', 'thorough'):
        print('unknown tier %r' % tier)
        return 2
    t0 = time.time()
    try:
        if hasattr(mod, 'controls'):
            mod.controls()
        res = mod.run(tier, seed)
    except HarnessError as e:
        print('HARNESS-ERROR: %s' % e)
        return 2
    except Exception:
        traceback.print_exc()
        print('HARNESS-ERROR: unexpected exception in the check machinery')
        return 2
    wall = time.time() - t0
    ctx = res.ctx
    known, new = classify(prop, ctx)
    known_lines = []
    for fp, v, r in known:
        findings.write_replay(prop, fp, v['what'], v['case'], v['count'])
        line = 'KNOWN-FINDING: property=%s %s (%d cases; %s)' % (prop, r.get('what', v['what']), v['count'], fp)
        known_lines.append(line)
        print(line)
    for fp, v in new:
        p = findings.write_replay(prop, fp, v['what'], v['case'], v['count'])
        print('VIOLATION property=%s replay=%s' % (prop, p))
        print('  fingerprint: %s' % fp)
        print('  what: %s (%d cases)' % (v['what'], v['count']))
    path = write_evidence(prop, tier, seed, res, wall, len(new), known_lines)
    for n in ctx.notes[:12]:
        print('  note:', n)
    print('%s %s: evaluations=%d distinct_nontrivial=%d states=%s transitions=%s exhaustive=%s '
          'known=%d new=%d wall=%.1fs evidence=%s' % (
              prop, tier, res.evaluations, res.distinct_nontrivial, res.states, res.transitions,
              res.exhaustive, len(known), len(new), wall, path))
    if not res.exhaustive:
        print('HARNESS-ERROR: a cap was hit; the stated bound was not completed')
        return 2
    return 1 if new else 0


if __name__ == '__main__':
    sys.exit(main())
