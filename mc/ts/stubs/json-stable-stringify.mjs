// Stub for json-stable-stringify: JSON.stringify with sorted keys and optional `space`.
function sortKeys(v) {
  if (v === null || typeof v !== 'object') return v;
  if (Array.isArray(v)) return v.map(sortKeys);
  const out = {};
  for (const k of Object.keys(v).sort()) out[k] = sortKeys(v[k]);
  return out;
}
export default function stableStringify(obj, opts) {
  const space = opts && typeof opts === 'object' ? opts.space : undefined;
  return JSON.stringify(sortKeys(obj), null, space);
}
