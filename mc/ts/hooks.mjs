// Loader hooks that let node >= 22.15 run nbdime's TypeScript sources straight from the working tree
// (no TypeScript compiler and no node_modules are installed in this image).
//  (a) extension-less relative imports resolve to .ts / index.ts
//  (b) '@lumino/coreutils' and 'json-stable-stringify' map to small stubs
//  (c) `import { A, B } from 'x'` becomes a namespace import plus destructuring, because names that are only types
//      (erased by type stripping inside the module that declares them) would otherwise break ESM linking
import { registerHooks } from 'node:module';
import fs from 'node:fs';
import path from 'node:path';
import { fileURLToPath, pathToFileURL } from 'node:url';

const here = path.dirname(fileURLToPath(import.meta.url));
const STUBS = {
  '@lumino/coreutils': pathToFileURL(path.join(here, 'stubs', 'lumino-coreutils.mjs')).href,
  'json-stable-stringify': pathToFileURL(path.join(here, 'stubs', 'json-stable-stringify.mjs')).href,
};

let counter = 0;
function rewriteImports(src) {
  // import * as stableStringify from 'json-stable-stringify'  ->  default import of the stub
  src = src.replace(/import\s+\*\s+as\s+(\w+)\s+from\s+'json-stable-stringify';/g, "import $1 from 'json-stable-stringify';");
  // named imports (not `import type`)
  return src.replace(/import\s+\{([^}]*)\}\s+from\s+(['"][^'"]+['"]);/g, (m, names, spec) => {
    const ns = '__ns' + (counter++);
    const parts = names.split(',').map(s => s.trim()).filter(Boolean).filter(s => !s.startsWith('type '))
      .map(s => { const mm = s.split(/\s+as\s+/); return mm.length === 2 ? `${mm[0]}: ${mm[1]}` : s; });
    return `import * as ${ns} from ${spec}; const { ${parts.join(', ')} } = ${ns};`;
  });
}

registerHooks({
  resolve(specifier, context, nextResolve) {
    if (STUBS[specifier]) return { url: STUBS[specifier], shortCircuit: true };
    if ((specifier.startsWith('./') || specifier.startsWith('../')) && context.parentURL && context.parentURL.startsWith('file:')) {
      const base = fileURLToPath(new URL(specifier, context.parentURL));
      for (const cand of [base + '.ts', path.join(base, 'index.ts'), base]) {
        try {
          if (fs.statSync(cand).isFile()) return { url: pathToFileURL(cand).href, shortCircuit: true };
        } catch (e) { /* try next */ }
      }
    }
    return nextResolve(specifier, context);
  },
  load(url, context, nextLoad) {
    if (url.startsWith('file:') && url.endsWith('.ts')) {
      const src = rewriteImports(fs.readFileSync(fileURLToPath(url), 'utf8'));
      return { format: 'module-typescript', source: src, shortCircuit: true };
    }
    return nextLoad(url, context);
  },
});
