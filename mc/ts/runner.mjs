// Batch runner: one JSON program per input line, one JSON result per output line ("\n" only as separator).
import fs from 'node:fs';
import path from 'node:path';
import readline from 'node:readline';
import { pathToFileURL } from 'node:url';

const repo = process.env.VERIF_REPO || '/repo';
const src = path.join(repo, 'packages', 'nbdime', 'src');
const patchMod = await import(pathToFileURL(path.join(src, 'patch', 'index.ts')).href);
const decMod = await import(pathToFileURL(path.join(src, 'merge', 'decisions.ts')).href);
const { patch } = patchMod;
const { MergeDecision, applyDecisions } = decMod;

const rl = readline.createInterface({ input: process.stdin, crlfDelay: Infinity });
const out = [];
function emit(o) { process.stdout.write(JSON.stringify(o) + '\n'); }
// readline splits on \r\n, \n *and* U+2028/U+2029?  No: only \n / \r\n / \r.  Input lines are ASCII-escaped JSON, so that is safe.
for await (const line of rl) {
  if (!line) continue;
  let prog;
  try { prog = JSON.parse(line); } catch (e) { emit({ id: null, ok: false, error: 'bad input line: ' + e }); continue; }
  try {
    let result;
    if (prog.kind === 'patch') {
      result = patch(prog.base, prog.diff);
    } else if (prog.kind === 'decisions') {
      const decs = prog.decisions.map(d => new MergeDecision(d));
      result = applyDecisions(prog.base, decs);
    } else {
      throw new Error('unknown kind ' + prog.kind);
    }
    emit({ id: prog.id, ok: true, result });
  } catch (e) {
    emit({ id: prog.id, ok: false, error: (e && e.name ? e.name + ': ' : '') + (e && e.message ? e.message : String(e)) });
  }
}
