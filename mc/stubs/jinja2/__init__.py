"""Import stub for the uninstalled jinja2 package: templates render their context as JSON text."""
import json


class FileSystemLoader(object):
    def __init__(self, searchpath, *a, **k):
        self.searchpath = searchpath if isinstance(searchpath, (list, tuple)) else [searchpath]


class ChoiceLoader(object):
    def __init__(self, loaders):
        self.loaders = list(loaders)


class _Template(object):
    def __init__(self, name):
        self.name = name

    def render(self, **ns):
        return json.dumps({'template': self.name, 'context': ns}, default=repr, sort_keys=True)


class Environment(object):
    def __init__(self, loader=None, autoescape=False, **kw):
        self.loader = loader

    def get_template(self, name):
        return _Template(name)
