def log_request(handler):
    """Stub: requests are not logged."""
