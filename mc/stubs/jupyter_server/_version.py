__version__ = '2.0.0.verif-stub'
