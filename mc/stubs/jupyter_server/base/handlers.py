import json
import logging

from tornado import web


class JupyterHandler(web.RequestHandler):
    """Thin stand-in: no authentication, templates rendered through settings['jinja2_env']."""

    @property
    def base_url(self):
        return self.settings.get('base_url', '/')

    @property
    def log(self):
        return logging.getLogger('verif.stub.jupyter_server')

    @property
    def contents_manager(self):
        return self.settings.get('contents_manager')

    def get_template(self, name):
        return self.settings['jinja2_env'].get_template(name)

    def render_template(self, name, **ns):
        return self.get_template(name).render(**ns)

    def check_xsrf_cookie(self):
        return None


class APIHandler(JupyterHandler):
    def finish(self, *args, **kwargs):
        self.set_header('Content-Type', 'application/json')
        return super(APIHandler, self).finish(*args, **kwargs)
