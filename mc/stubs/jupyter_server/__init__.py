"""Import stub for the uninstalled jupyter_server package (verification harness only).

Only what nbdime's web modules import is provided; the handlers, routing and application settings
under test are nbdime's own."""
__version__ = '2.0.0.verif-stub'
