"""Process hygiene: isolated HOME/git/jupyter environment, tool-set PATHs, deterministic cell ids,
reset of nbdime's module-level state between executions."""
import atexit
import os
import shutil
import sys
import tempfile

_SCRATCH = None
_OWNER = None
TOOLSETS = {}


def scratch_root():
    """Per-run scratch directory (removed when the creating process exits)."""
    global _SCRATCH, _OWNER
    if _SCRATCH is None:
        _SCRATCH = tempfile.mkdtemp(prefix='nbverif-')
        _OWNER = os.getpid()
        atexit.register(_cleanup)
    return _SCRATCH


def _cleanup():
    if _SCRATCH and os.getpid() == _OWNER:
        shutil.rmtree(_SCRATCH, ignore_errors=True)


def setup_env():
    """Isolate everything user- or machine-specific.  Idempotent."""
    root = scratch_root()
    home = os.path.join(root, 'home')
    os.makedirs(os.path.join(home, '.config'), exist_ok=True)
    e = os.environ
    e['HOME'] = home
    e['XDG_CONFIG_HOME'] = os.path.join(home, '.config')
    e['GIT_CONFIG_NOSYSTEM'] = '1'
    e.pop('GIT_CONFIG_GLOBAL', None)
    e.pop('GIT_DIR', None)
    e.pop('GIT_WORK_TREE', None)
    for k in ('GIT_AUTHOR_NAME', 'GIT_COMMITTER_NAME'):
        e[k] = 'verif'
    for k in ('GIT_AUTHOR_EMAIL', 'GIT_COMMITTER_EMAIL'):
        e[k] = 'verif@example.invalid'
    for k in ('GIT_AUTHOR_DATE', 'GIT_COMMITTER_DATE'):
        e[k] = '2020-01-01T00:00:00Z'
    e['JUPYTER_CONFIG_DIR'] = os.path.join(home, 'jupyter-config')
    e['JUPYTER_CONFIG_PATH'] = os.path.join(home, 'jupyter-extra')
    e['JUPYTER_DATA_DIR'] = os.path.join(home, 'jupyter-data')
    e['JUPYTER_NO_CONFIG'] = ''
    e.pop('JUPYTER_NO_CONFIG', None)
    e['TERM'] = 'dumb'
    e['LC_ALL'] = 'C.UTF-8'
    e['PYTHONIOENCODING'] = 'utf-8'
    e.setdefault('VERIF_ORIG_PATH', e.get('PATH', ''))
    import logging
    lg = logging.getLogger('nbdime')
    if not getattr(lg, '_verif_quiet', False):
        lg.addFilter(lambda record: False)   # harness output only; nbdime's log text is never an observation
        lg._verif_quiet = True
    _build_toolsets(root)
    return root


def _build_toolsets(root):
    """Three directories of symlinks: {git,diff,diff3}, {diff,diff3}, {} (DESIGN 3)."""
    if TOOLSETS:
        return
    orig = os.environ.get('VERIF_ORIG_PATH') or os.environ.get('PATH', '')
    found = {}
    for t in ('git', 'diff', 'diff3'):
        p = shutil.which(t, path=orig)
        if p:
            found[t] = os.path.realpath(p) if t != 'git' else p
    for name, tools in (('git', ('git', 'diff', 'diff3')), ('diff3', ('diff', 'diff3')), ('none', ())):
        d = os.path.join(root, 'tools-' + name)
        os.makedirs(d, exist_ok=True)
        for t in tools:
            if t in found:
                dst = os.path.join(d, t)
                if not os.path.lexists(dst):
                    os.symlink(found[t], dst)
        TOOLSETS[name] = d


def use_toolset(name):
    """Select which external helpers nbdime can find (it uses shutil.which at call time)."""
    os.environ['PATH'] = TOOLSETS[name]


def restore_path():
    os.environ['PATH'] = os.environ['VERIF_ORIG_PATH']


# ---- deterministic cell ids --------------------------------------------------------------------
_idc = [0]


def _next_id():
    _idc[0] += 1
    return 'verif-id-%d' % _idc[0]


def install_id_counter():
    import nbformat.v4.nbbase as nbbase
    nbbase.random_cell_id = _next_id
    try:
        import nbformat.corpus.words as w
        w.generate_corpus_id = _next_id
    except ImportError:
        pass


# ---- nbdime module globals ----------------------------------------------------------------------

def reset_globals():
    """Restore nbdime's process-global state to its import-time value (everything except C12/C20,
    whose subject is precisely this state)."""
    _idc[0] = 0
    import nbdime.diffing.notebooks as nbs
    for tbl in (nbs.notebook_differs, nbs.notebook_predicates):
        for k in tuple(tbl.keys()):
            del tbl[k]
    nbs.compare_text_approximate.cache_clear()
    nbs._compare_mimedata_strings.cache_clear()
    import nbdime.merging.generic as mg
    mg._merge_strings.recursion = False
    try:
        import nbdime.prettyprint as pp
        if hasattr(pp, '_git_diff_print_cmd_cache'):
            pass
    except Exception:
        pass


def global_state_digest():
    """What reset_globals is supposed to make constant; used by determinism self-checks."""
    import nbdime.diffing.notebooks as nbs
    import nbdime.merging.generic as mg
    return (tuple(sorted(nbs.notebook_differs.keys())), tuple(sorted(nbs.notebook_predicates.keys())),
            getattr(mg._merge_strings, 'recursion', None))
