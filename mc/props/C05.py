"""C05 - merge obeys identity, one-sided adoption, agreement and side symmetry.

Space : notebooks - every x in BFS(seed, d) for the unary/binary laws under every distinct strategy
        table; every unordered pair {l, r} of depth-1 states for symmetry under the side-neutral
        configurations.  Generic JSON - all triples of the merge families via decide_merge +
        apply_decisions.
Oracle: merge(b,b,b)=b; merge(b,x,b)=merge(b,b,x)=x; merge(b,x,x)=x; none conflicted.  If the two
        diffs have no addrange with the same key on the same path: same conflict verdict with roles
        swapped and, when conflict-free, the same merged document.
"""
import itertools

from .. import isolate, mergecore as M, universe_nb as U, universe_json as UJ
from ..engine import Ctx, canon, run_shards, chunked, time_limit, HarnessError
from ..findings import exc_fingerprint
from ..run import Result

PROP = 'C05'
SIDE_NEUTRAL = [M.MERGETOOL, M.DEFAULT, ('use-base', None, None, True), ('inline', None, None, False)]
# side-neutral input / output strategies, run on the edits they govern
OUTPUT_NEUTRAL = [('inline', None, 'remove', True), ('inline', None, 'clear-all', True), ('inline', None, 'use-base', True), ('use-base', None, 'inline', True)]
INPUT_NEUTRAL = [('inline', 'use-base', None, True), ('use-base', 'inline', None, True)]


def same_position_inserts(dl, dr):
    """True iff both diffs hold an addrange with the same key on the same path (descending through
    patch ops with equal keys, including string lines) - the statement's exclusion."""
    al = {e['key'] for e in dl if e['op'] == 'addrange'}
    ar = {e['key'] for e in dr if e['op'] == 'addrange'}
    if al & ar:
        return True
    pl = {e['key']: e['diff'] for e in dl if e['op'] == 'patch'}
    pr = {e['key']: e['diff'] for e in dr if e['op'] == 'patch'}
    for k in set(pl) & set(pr):
        if same_position_inserts(pl[k], pr[k]):
            return True
    return False


# ---- notebooks -------------------------------------------------------------------------------------

def law_checks(ctx, B, X, cfg, label):
    """identity / one-sided / agreement for one (base, X, config)."""
    cb, cx = canon(B), canon(X)
    cases = [('identity', B, B, cb)] if label == '<seed>' else []
    if label != '<seed>':
        cases += [('local-only', X, B, cx), ('remote-only', B, X, cx), ('agreement', X, X, cx)]
    for law, L, R, want in cases:
        ctx.count('evaluations')
        ctx.count('nontrivial')
        out = M.run_merge(B, L, R, cfg)
        case = {'law': law, 'base': B, 'local': L, 'remote': R, 'config': list(cfg), 'label': label}
        if out.exc is not None:
            ctx.violation(exc_fingerprint(PROP, out.exc, 'LAW-EXC|' + law), '%s merge raised %s: %s' % (law, type(out.exc).__name__, out.exc), case)
            continue
        if out.conflicted:
            ctx.violation('%s|LAW|%s|conflict-reported' % (PROP, law), '%s merge reports a conflict' % law, case)
        if canon(out.merged) != want:
            from .C02 import classify
            ctx.violation('%s|LAW|%s|wrong-result|%s' % (PROP, law, classify(U.plain(out.merged), L if law != 'remote-only' else R)),
                          '%s merge does not return the expected notebook' % law, case)


def symmetry_check(ctx, B, L, R, cfg, labels):
    import nbdime
    isolate.reset_globals()
    b = U.to_node(B)
    dl = nbdime.diff_notebooks(b, U.to_node(L))
    dr = nbdime.diff_notebooks(b, U.to_node(R))
    ctx.count('evaluations')
    if same_position_inserts(dl, dr):
        ctx.count('symmetry_excluded_same_position_inserts')
        return
    ctx.count('nontrivial')
    ctx.count('symmetry_checked')
    o1 = M.run_merge(B, L, R, cfg)
    o2 = M.run_merge(B, R, L, cfg)
    case = {'law': 'symmetry', 'base': B, 'local': L, 'remote': R, 'config': list(cfg), 'labels': list(labels)}
    if o1.exc is not None or o2.exc is not None:
        if (o1.exc is None) != (o2.exc is None):
            ctx.violation('%s|SYMMETRY|one-order-raises' % PROP, 'merge raises in one role assignment only', case)
        return
    if o1.conflicted != o2.conflicted:
        ctx.violation('%s|SYMMETRY|verdict|%s' % (PROP, M.cfg_name(cfg).split('/')[0]), 'conflict verdict changes when local and remote are swapped', case)
    elif not o1.conflicted:
        ctx.count('symmetry_conflict_free')
        if canon(o1.merged) != canon(o2.merged):
            ctx.violation('%s|SYMMETRY|result|%s' % (PROP, M.cfg_name(cfg).split('/')[0]), 'conflict-free merge differs when local and remote are swapped', case)


# ---- generic JSON ----------------------------------------------------------------------------------

def generic_check(ctx, b, l, r, fam):
    import nbdime
    from nbdime.merging.decisions import apply_decisions
    ctx.count('evaluations')
    case = {'base': b, 'local': l, 'remote': r, 'family': fam, 'generic': True}

    def merge(x, y, z):
        with time_limit(20):
            dec = nbdime.decide_merge(x, y, z)
            return U.plain(apply_decisions(x, dec)), any(d.conflict for d in dec)
    try:
        m, conf = merge(b, l, r)
    except Exception as e:
        ctx.violation(exc_fingerprint(PROP, e, 'GENERIC-EXC'), 'generic merge raised %s: %s' % (type(e).__name__, e), case)
        return
    cb, cl, cr = canon(b), canon(l), canon(r)
    want = None
    law = None
    if cl == cb and cr == cb:
        law, want = 'identity', cb
    elif cr == cb:
        law, want = 'local-only', cl
    elif cl == cb:
        law, want = 'remote-only', cr
    elif cl == cr:
        law, want = 'agreement', cl
    if law:
        ctx.count('nontrivial')
        ctx.count('generic_law_cases')
        if conf:
            ctx.violation('%s|GENERIC-LAW|%s|conflict-reported' % (PROP, law), 'generic %s merge reports a conflict' % law, case)
        if canon(m) != want:
            from .C02 import classify
            ctx.violation('%s|GENERIC-LAW|%s|wrong-result|%s' % (PROP, law, classify(m, l if law != 'remote-only' else r)),
                          'generic %s merge gives a wrong document' % law, case)
        return
    # symmetry (only evaluate each unordered pair once)
    if canon([l]) > canon([r]):
        return
    try:
        dl, dr = nbdime.diff(b, l), nbdime.diff(b, r)
    except Exception:
        return
    if same_position_inserts(dl, dr):
        ctx.count('symmetry_excluded_same_position_inserts')
        return
    ctx.count('nontrivial')
    ctx.count('symmetry_checked')
    try:
        m2, conf2 = merge(b, r, l)
    except Exception as e:
        ctx.violation('%s|GENERIC-SYMMETRY|one-order-raises' % PROP, 'generic merge raises in one role assignment only: %s' % e, case)
        return
    if conf != conf2:
        ctx.violation('%s|GENERIC-SYMMETRY|verdict' % PROP, 'generic conflict verdict changes when roles are swapped', case)
    elif not conf and canon(m) != canon(m2):
        ctx.violation('%s|GENERIC-SYMMETRY|result' % PROP, 'generic conflict-free merge differs when roles are swapped', case)


# ---- shards ------------------------------------------------------------------------------------------
_G = {}


def _shard(sh, ctx):
    kind = sh[0]
    if kind == 'laws':
        _, sname, idxs, cfgs = sh
        seed, states = _G['law_states'][sname]
        for i in idxs:
            label, X = states[i]
            for cfg in cfgs:
                law_checks(ctx, seed, X, cfg, label)
            if i % 37 == 0:
                ctx.sample({'seed': sname, 'X': label, 'configs': len(cfgs)}, rank=(sname, i))
    elif kind == 'sym':
        _, sname, idxs = sh
        seed, d1 = M.depth1(sname)
        for i in idxs:
            for j in range(i + 1, len(d1)):
                for cfg in SIDE_NEUTRAL[:_G['nsym']]:
                    symmetry_check(ctx, seed, d1[i][2], d1[j][2], cfg, (sname, d1[i][0], d1[j][0]))
    elif kind == 'symx':
        _, sname, idxs, pool, cfgs = sh
        seed, d1 = M.depth1(sname)
        for i in idxs:
            for j in pool:
                if j > i:
                    for cfg in cfgs:
                        symmetry_check(ctx, seed, d1[i][2], d1[j][2], cfg, (sname, d1[i][0], d1[j][0]))
    elif kind == 'generic':
        _, fam, idxs = sh
        docs = _G['fam'][fam]
        for i in idxs:
            for l in docs:
                for r in docs:
                    generic_check(ctx, docs[i], l, r, fam)
            ctx.sample({'family': fam, 'base': docs[i], 'triples': len(docs) ** 2}, rank=(fam, i))


def controls():
    if not same_position_inserts([{'op': 'addrange', 'key': 1, 'valuelist': [0]}], [{'op': 'addrange', 'key': 1, 'valuelist': [1]}]):
        raise HarnessError('C05 control: same-position inserts not recognised')
    if same_position_inserts([{'op': 'addrange', 'key': 1, 'valuelist': [0]}], [{'op': 'addrange', 'key': 2, 'valuelist': [1]}]):
        raise HarnessError('C05 control: different positions treated as same')
    nested_l = [{'op': 'patch', 'key': 'cells', 'diff': [{'op': 'patch', 'key': 0, 'diff': [{'op': 'addrange', 'key': 3, 'valuelist': ['x']}]}]}]
    if not same_position_inserts(nested_l, nested_l):
        raise HarnessError('C05 control: nested same-position inserts not recognised')
    # the law oracle must flag a merge that drops a one-sided change
    isolate.setup_env()
    isolate.install_id_counter()
    import nbdime.merging.notebooks as mn
    seed, d1 = M.depth1('S45')
    c = Ctx()
    orig = mn.apply_decisions
    try:
        mn.apply_decisions = lambda base, decisions: base
        law_checks(c, seed, d1[40][2], M.DEFAULT, 'x')
    finally:
        mn.apply_decisions = orig
    if not any('wrong-result' in f for f in c.viol):
        raise HarnessError('C05 control: dropped change not flagged')


def run(tier, seed):
    isolate.setup_env()
    isolate.install_id_counter()
    S = U.seeds()
    reps = sorted((v[0] for v in M.config_classes().values()), key=M.cfg_name)
    allc = M.all_configs()
    law_states = {}
    trans = 0
    nstates = 0
    shards = []
    depth = 1 if tier == 'quick' else 2
    for sname, sd in sorted(S.items()):
        d = depth if sname in ('S45', 'Sjson') else 1
        levels, t = U.explore(sd, d)
        trans += t
        states = [('<seed>', sd)]
        for lev in levels[1:]:
            for nb, path in lev:
                states.append(('+'.join(l for l, _ in path), nb))
        nstates += len(states)
        law_states[sname] = (sd, states)
        if tier == 'quick':
            cfgs = tuple(reps) if sname in ('S45', 'Sjson') else tuple(M.KEY_CONFIGS)
        else:
            cfgs = tuple(allc) if sname in ('S45', 'S44', 'Sjson', 'Ssim') else tuple(reps)
        d1n = len(levels[1]) + 1
        for ch in chunked(range(d1n), max(1, d1n // 8)):
            shards.append(('laws', sname, ch, cfgs))
        if len(states) > d1n:
            # deeper states: key configurations only
            for ch in chunked(range(d1n, len(states)), 64):
                shards.append(('laws', sname, ch, tuple(M.KEY_CONFIGS)))
    _G['law_states'] = law_states
    _G['nsym'] = 3 if tier == 'quick' else 4
    focus = tuple('S45#focus:%s' % f for f in ('outputs', 'outsim', 'source', 'meta', 'attachments', 'cellmix0', 'cellmix2')) + ('S45#lineruns3',)
    for sname in ((('S45', 'Sv2', 'Sjson') if tier == 'quick' else ('S45', 'S44', 'Sjson', 'Ssim', 'Sv2', 'Sv0')) + focus):
        _, d1 = M.depth1(sname)
        for i in range(len(d1)):
            shards.append(('sym', sname, (i,)))
    # side-neutral output / input strategies on the edits they govern
    xplan = [('S45', ('outputs', 'rerun', 'execution_count'), OUTPUT_NEUTRAL), ('S45#focus:outputs', None, OUTPUT_NEUTRAL), ('S45#focus:outsim', None, OUTPUT_NEUTRAL),
             ('S45#outruns2', None, OUTPUT_NEUTRAL[:2]),
             ('S45', ('attachments', 'source', 'cell-retype', 'cell-delete'), INPUT_NEUTRAL), ('S45#focus:source', None, INPUT_NEUTRAL), ('S45#focus:attachments', None, INPUT_NEUTRAL)]
    if tier == 'thorough':
        xplan += [('S44', ('outputs', 'rerun', 'execution_count'), OUTPUT_NEUTRAL), ('Sjson', ('outputs', 'rerun', 'execution_count'), OUTPUT_NEUTRAL),
                  ('S44', ('attachments', 'source', 'cell-retype', 'cell-delete'), INPUT_NEUTRAL), ('S45#outruns3', None, OUTPUT_NEUTRAL)]
    for sname, kinds, cfgs in xplan:
        _, d1 = M.depth1(sname)
        pool = tuple(i for i, (l, t, n) in enumerate(d1) if kinds is None or t['kind'] in kinds)
        for i in pool:
            shards.append(('symx', sname, (i,), pool, tuple(cfgs)))
    fam = UJ.merge_families(tier)
    _G['fam'] = fam
    for name, docs in sorted(fam.items()):
        for ch in chunked(range(len(docs)), max(1, len(docs) // 4)):
            shards.append(('generic', name, ch))
    ctx = run_shards(_shard, shards, seed=seed, label=PROP)
    ev = ctx.counters['evaluations']
    return Result(
        ctx, level='exploration',
        rule=('laws: every state X of BFS(seed, depth) x configuration x {local-only, remote-only, agreement} plus identity on every seed; '
              'symmetry: every unordered pair of distinct depth-1 states x side-neutral configuration, and every generic triple; '
              'states/documents de-duplicated by canonical JSON; non-trivial = a law applies or the symmetry premise (no same-position inserts) holds'),
        evaluations=ev, distinct_nontrivial=ctx.counters['nontrivial'],
        states=nstates + sum(len(v) for v in fam.values()), transitions=trans + ev, traces_validated=ev, exhaustive=True,
        bounds={'tier': tier, 'law_depth': depth, 'law_states': {k: len(v[1]) for k, v in law_states.items()},
                'generic_families': {k: len(v) for k, v in fam.items()}, 'strategy_tables': len(reps), 'cli_combinations': len(allc)},
        assumptions=['symmetry is only demanded when nbdime\'s own diffs base->local and base->remote have no addrange with the same key on '
                     'the same path (the statement\'s exclusion); those diffs are checked separately by C01/C11',
                     'symmetry configurations: mergetool, inline, use-base (use-local/use-remote are asymmetric by definition); the side-neutral output strategies '
                     '(remove, clear-all, use-base, inline) on output edits and input strategies (use-base, inline) on source/attachment edits'],
    )


def replay(case, ctx):
    isolate.setup_env()
    isolate.install_id_counter()
    if case.get('generic'):
        generic_check(ctx, case['base'], case['local'], case['remote'], case.get('family', ''))
        generic_check(ctx, case['base'], case['remote'], case['local'], case.get('family', ''))
        return
    cfg = tuple(case['config'])
    if case.get('law') == 'symmetry':
        symmetry_check(ctx, case['base'], case['local'], case['remote'], cfg, tuple(case.get('labels', ())))
    else:
        X = case['local'] if case['law'] != 'remote-only' else case['remote']
        law_checks(ctx, case['base'], X, cfg, '<seed>' if case['law'] == 'identity' else case.get('label', 'x'))
