"""C14 - ignore options hide exactly the ignored categories and nothing else.

Space : all 64 subsets of {sources, outputs, attachments, metadata, id, details} x the ways of giving them
        (negative flags, positive flags for the complement, config booleans in a real nbdime_config.json, an
        `Ignore` path mapping in the config) x every pair (seed, x), x in BFS(seed, d), each edit tagged with the
        set of categories that enclose it.  Flags go through the real nbdiff argument parser and
        process_diff_flags.
Oracle: with S the ignored set and proj_S blanking exactly the ignored categories:
        (i) no diff entry whose own path lies inside an ignored category; (ii) proj_S(ref_patch(A, d)) ==
        proj_S(B); (iii) if every component of the edit is hidden by an ignored category other than `sources`
        the diff is empty; (iv) after set_notebook_diff_targets() the diff equals the diff without ignores.
"""
import io
import itertools
import json
import os
import shutil
import sys
import tempfile

from .. import isolate, universe_nb as U
from ..engine import Ctx, canon, run_shards, chunked, time_limit, HarnessError
from ..findings import exc_fingerprint
from ..oracles.refpatch import ref_patch, RefPatchError
from ..run import Result

PROP = 'C14'
CATS = ('sources', 'outputs', 'attachments', 'metadata', 'id', 'details')
REGIONS = {
    'sources': ('/cells/*/source',),
    'outputs': ('/cells/*/outputs',),
    'attachments': ('/cells/*/attachments',),
    'metadata': ('/metadata', '/cells/*/metadata', '/cells/*/outputs/*/metadata'),
    'id': ('/cells/*/id',),
    'details': ('/cells/*/execution_count', '/cells/*/outputs/*/execution_count'),
}
IGNORE_PATHS = {
    'sources': {'/cells/*/source': True},
    'outputs': {'/cells/*/outputs': True},
    'attachments': {'/cells/*/attachments': True},
    'metadata': {'/metadata': True, '/cells/*/metadata': True, '/cells/*/outputs/*/metadata': True},
    'id': {'/cells/*/id': True},
    'details': {'/cells/*': ['execution_count'], '/cells/*/outputs/*': ['execution_count']},
}
FLAG = {'sources': 'sources', 'outputs': 'outputs', 'attachments': 'attachments', 'metadata': 'metadata', 'id': 'id', 'details': 'details'}


def proj(nb, S):
    """Blank exactly the ignored categories (presence of the blanked keys included)."""
    nb = json.loads(json.dumps(nb))
    if 'metadata' in S:
        nb.pop('metadata', None)
    for c in nb.get('cells', []):
        if 'sources' in S:
            c.pop('source', None)
        if 'attachments' in S:
            c.pop('attachments', None)
        if 'metadata' in S:
            c.pop('metadata', None)
        if 'id' in S:
            c.pop('id', None)
        if 'details' in S:
            c.pop('execution_count', None)
        if 'outputs' in S:
            c.pop('outputs', None)
        for o in c.get('outputs', []) or []:
            if 'metadata' in S:
                o.pop('metadata', None)
            if 'details' in S:
                o.pop('execution_count', None)
    return nb


def inside(path, S):
    """Categories of S whose region contains this starred path."""
    hit = []
    for c in S:
        for r in REGIONS[c]:
            if path == r or path.startswith(r + '/'):
                hit.append(c)
    return hit


def leaked_entries(d, S, path=''):
    """Yield (category, starred path, op) for diff entries whose own path lies inside an ignored category."""
    for e in d:
        k = e['key']
        p = path + '/' + ('*' if isinstance(k, int) else str(k))
        hit = inside(p, S)
        if hit:
            yield hit[0], p, e['op']
            continue
        if e['op'] == 'patch':
            for x in leaked_entries(e['diff'], S, p):
                yield x


def hidden_without_sources(tags, S):
    """(iii): is every component of the edit enclosed by an ignored category other than sources?"""
    groups = tags.get('multi') or (tags['cats'],)
    if not groups or any(len(g) == 0 for g in groups):
        return False
    return all(any(c in S and c != 'sources' for c in g) for g in groups)


def configure(form, S, workdir):
    """Install the ignore configuration exactly as a user would and return nothing; afterwards
    diff_notebooks reflects it.  Returns False when this form cannot express S."""
    from nbdime import nbdiffapp
    from nbdime.args import process_diff_flags
    isolate.reset_globals()
    cfgfile = os.path.join(workdir, 'nbdime_config.json')
    if os.path.exists(cfgfile):
        os.unlink(cfgfile)
    argv = []
    if form == 'negative-flags':
        if not S:
            pass
        argv = ['--ignore-' + FLAG[c] for c in CATS if c in S]
    elif form == 'positive-flags':
        comp = [c for c in CATS if c not in S]
        if not comp or not S:
            return False          # "nothing included" / "nothing ignored" cannot be said with positive flags
        argv = ['--' + FLAG[c] for c in comp]
    elif form == 'config-booleans':
        if not S:
            return False
        with open(cfgfile, 'w') as f:
            json.dump({'NbDiff': {FLAG[c]: False for c in S}}, f)
    elif form == 'ignore-mapping':
        if not S:
            return False
        m = {}
        for c in CATS:
            if c in S:
                m.update(IGNORE_PATHS[c])
        with open(cfgfile, 'w') as f:
            json.dump({'NbDiff': {'Ignore': m}}, f)
    os.chdir(workdir)
    so, se = sys.stdout, sys.stderr
    sys.stdout, sys.stderr = io.StringIO(), io.StringIO()
    try:
        args = nbdiffapp._build_arg_parser(prog='nbdiff').parse_args(argv + ['a.ipynb', 'b.ipynb'])
        process_diff_flags(args)
    finally:
        sys.stdout, sys.stderr = so, se
        os.chdir('/')
    return True


def check_pair(ctx, A, B, tags, S, form, label, plain_diff):
    import nbdime
    ctx.count('evaluations')
    case = {'A': A, 'B': B, 'ignored': sorted(S), 'form': form, 'label': label, 'tags': {'cats': list(tags['cats']), 'multi': tags.get('multi')}}
    try:
        with time_limit(30):
            d = nbdime.diff_notebooks(U.to_node(A), U.to_node(B))
    except Exception as e:
        ctx.violation(exc_fingerprint(PROP, e), 'diff_notebooks under ignores raised %s: %s' % (type(e).__name__, e), case)
        return
    dj = json.loads(json.dumps(d))
    if S:
        ctx.count('nontrivial')
    for cat, p, op in leaked_entries(dj, S):
        ctx.violation('%s|LEAK|%s|%s|%s' % (PROP, cat, p, op), 'diff reports %s at %s although %s is ignored' % (op, p, cat), case)
    try:
        got = ref_patch(A, dj)
        if canon(proj(got, S)) != canon(proj(B, S)):
            from .C02 import classify
            ctx.violation('%s|NON-IGNORED-PART-LOST|%s' % (PROP, classify(proj(got, S), proj(B, S))),
                          'patching with the filtered diff does not reproduce the non-ignored parts of the target', case)
    except RefPatchError as e:
        ctx.violation('%s|PATCH-ERROR' % PROP, 'filtered diff cannot be applied: %s' % e, case)
    if hidden_without_sources(tags, S):
        ctx.count('hidden_edits')
        if dj:
            cats = sorted(set(c for g in (tags.get('multi') or (tags['cats'],)) for c in g if c in S and c != 'sources'))
            # name the categories whose entries actually leaked (one violation per category), so that combinations of edits do not
            # multiply fingerprints; a non-empty diff that no leaked entry explains gets its own fingerprint
            leaking = sorted(set(cat for cat, p, op in leaked_entries(dj, S)))
            for cat in leaking:
                ctx.violation('%s|NOT-EMPTY|%s' % (PROP, cat), 'notebooks differ only in ignored %s but the diff is not empty (leaking: %s)' % ('/'.join(cats), cat), case)
            if not leaking:
                ctx.violation('%s|NOT-EMPTY|unexplained|%s' % (PROP, '+'.join(cats)),
                              'notebooks differ only in ignored %s but the diff is not empty' % '/'.join(cats), case)
    if not S and plain_diff is not None and canon(dj) != plain_diff:
        ctx.violation('%s|EMPTY-SET-DIFFERS' % PROP, 'diff with nothing ignored differs from the default diff', case)


# ---- path-level Ignore mappings (single paths and key lists, as documented in config.rst) ---------------------------------

PATH_SPECS = [
    {'/cells/*/source': True}, {'/cells/*/outputs': True}, {'/cells/*/attachments': True}, {'/metadata': True}, {'/cells/*/metadata': True},
    {'/cells/*/outputs/*/metadata': True}, {'/metadata': ['kernelspec']}, {'/metadata': ['x', 'tags']}, {'/cells/*/metadata': ['tags']},
    {'/cells/*/metadata': ['custom', 'collapsed', 'level']}, {'/cells/*/outputs/*/metadata': ['isolated', 'width']}, {'/cells/*': ['execution_count']},
    {'/cells/*/outputs/*': ['execution_count']}, {'/cells/*/outputs/*': ['metadata']}, {'/cells/*': ['metadata']},
    {'/metadata': True, '/cells/*/outputs/*/metadata': ['width']}, {'/cells/*/outputs/*/metadata': True, '/cells/*/metadata': ['tags']},
]


def spec_regions(spec):
    regs = []
    for p, v in spec.items():
        if v is True:
            regs.append(p)
        else:
            regs.extend('%s/%s' % (p, k) for k in v)
    return regs


def in_regions(path, regs):
    return any(path == r or path.startswith(r + '/') for r in regs)


def changed_paths(a, b, path=''):
    """Starred paths at which two documents differ (independent structural comparison; a list whose length changes is
    reported as the list itself)."""
    if type(a) is not type(b):
        return [path or '/']
    if isinstance(a, dict):
        out = []
        for k in sorted(set(a) | set(b)):
            if k not in a or k not in b:
                out.append('%s/%s' % (path, k))
            else:
                out.extend(changed_paths(a[k], b[k], '%s/%s' % (path, k)))
        return out
    if isinstance(a, list):
        if len(a) != len(b):
            return [path or '/']
        out = []
        for x, y in zip(a, b):
            out.extend(changed_paths(x, y, path + '/*'))
        return out
    return [] if canon(a) == canon(b) else [path or '/']


def proj_regions(doc, regs, path=''):
    if isinstance(doc, dict):
        return {k: proj_regions(v, regs, '%s/%s' % (path, k)) for k, v in doc.items() if not in_regions('%s/%s' % (path, k), regs)}
    if isinstance(doc, list):
        return [proj_regions(v, regs, path + '/*') for v in doc]
    return doc


def leaked_paths(d, regs, path=''):
    for e in d:
        k = e['key']
        p = path + '/' + ('*' if isinstance(k, int) else str(k))
        if in_regions(p, regs):
            yield p, e['op']
            continue
        if e['op'] == 'patch':
            for x in leaked_paths(e['diff'], regs, p):
                yield x


def check_spec_pair(ctx, A, B, spec, label, configured=None):
    import nbdime
    ctx.count('evaluations')
    ctx.count('nontrivial')
    ctx.count('path_level_cases')
    regs = spec_regions(spec)
    case = {'A': A, 'B': B, 'ignore_mapping': spec, 'label': label, 'path_level': True}
    cls = ''
    if configured and configured[1]:
        case['configured_mapping'], case['flags'] = configured[0], list(configured[1])
        # classifier: process_diff_flags -> set_notebook_diff_targets rewrites all nine paths of its table as soon as any category flag is given; a path whose
        # category is not ignored by the flags is *reset*, which drops a mapping the configuration file put on that very path
        ignored_cats = {'-D': 'details', '-M': 'metadata'}
        cats = {ignored_cats[f] for f in configured[1]}
        table = {'/cells/*': 'details', '/cells/*/outputs/*': 'details', '/metadata': 'metadata', '/cells/*/metadata': 'metadata', '/cells/*/outputs/*/metadata': 'metadata',
                 '/cells/*/source': 'sources', '/cells/*/outputs': 'outputs', '/cells/*/attachments': 'attachments', '/cells/*/id': 'id'}
        if any(p in table and table[p] not in cats for p in configured[0]):
            cls = 'flags-reset-mapping|'
    try:
        with time_limit(30):
            d = json.loads(json.dumps(nbdime.diff_notebooks(U.to_node(A), U.to_node(B))))
    except Exception as e:
        ctx.violation(exc_fingerprint(PROP, e, 'PATH-EXC'), 'diff_notebooks under an Ignore mapping raised %s: %s' % (type(e).__name__, e), case)
        return
    name = '+'.join(sorted('%s=%s' % (p, 'all' if v is True else 'keys') for p, v in spec.items()))
    for p, op in leaked_paths(d, regs):
        ctx.violation('%s|PATH-LEAK|%s%s|%s' % (PROP, cls, p, op), 'diff reports %s at %s although the Ignore mapping %r covers it' % (op, p, spec), case)
    try:
        got = ref_patch(A, d)
        if canon(proj_regions(got, regs)) != canon(proj_regions(B, regs)):
            from .C02 import classify
            cls = classify(proj_regions(got, regs), proj_regions(B, regs))
            ctx.violation('%s|PATH-NON-IGNORED-PART-LOST|%s' % (PROP, cls if cls == 'type-only' else name + '|' + cls),
                          'patching with the filtered diff does not reproduce the parts outside the Ignore mapping %r' % (spec,), case)
    except RefPatchError as e:
        ctx.violation('%s|PATH-PATCH-ERROR|%s' % (PROP, name), 'filtered diff cannot be applied: %s' % e, case)
    ch = changed_paths(A, B)
    if ch and all(in_regions(p, regs) for p in ch) and not any(r.startswith('/cells/*/source') for r in regs):
        ctx.count('path_level_hidden_edits')
        if d:
            ctx.violation('%s|PATH-NOT-EMPTY|%s%s' % (PROP, cls, name), 'notebooks differ only inside the Ignore mapping %r but the diff is not empty' % (spec,), case)


# an Ignore mapping from the configuration file *together with* category flags on the command line: both must take effect, also where they meet on
# one differ path (a key list from the file and the execution_count filter of -D both live on /cells/* and /cells/*/outputs/*)
FLAG_REGIONS = {
    '-D': {'/cells/*': ['execution_count'], '/cells/*/outputs/*': ['execution_count']},
    '-M': {'/metadata': True, '/cells/*/metadata': True, '/cells/*/outputs/*/metadata': True},
}
COMBINED_SPECS = [
    ({'/cells/*/outputs/*': ['metadata']}, ('-D',)), ({'/cells/*': ['metadata']}, ('-D',)), ({'/cells/*/outputs/*': ['metadata'], '/cells/*': ['metadata']}, ('-D',)),
    ({'/metadata': ['kernelspec']}, ('-D',)), ({'/cells/*': ['execution_count']}, ('-M',)), ({'/cells/*/outputs/*': ['execution_count']}, ('-D', '-M')),
]


def merged_spec(spec, flags):
    out = {p: (v if v is True else list(v)) for p, v in spec.items()}
    for f in flags:
        for p, v in FLAG_REGIONS[f].items():
            if v is True or out.get(p) is True:
                out[p] = True
            else:
                out[p] = sorted(set(out.get(p, [])) | set(v))
    return out


def configure_mapping(spec, workdir, flags=()):
    from nbdime import nbdiffapp
    from nbdime.args import process_diff_flags
    isolate.reset_globals()
    with open(os.path.join(workdir, 'nbdime_config.json'), 'w') as f:
        json.dump({'NbDiff': {'Ignore': spec}}, f)
    os.chdir(workdir)
    so, se = sys.stdout, sys.stderr
    sys.stdout, sys.stderr = io.StringIO(), io.StringIO()
    try:
        args = nbdiffapp._build_arg_parser(prog='nbdiff').parse_args(list(flags) + ['a.ipynb', 'b.ipynb'])
        process_diff_flags(args)
    finally:
        sys.stdout, sys.stderr = so, se
        os.chdir('/')


_G = {}


def _shard(sh, ctx):
    if sh[0] == 'pathspecs':
        _, sname, specs = sh
        seed, d1 = _G['space'][sname]
        work = tempfile.mkdtemp(prefix='c14p-', dir=isolate.scratch_root())
        try:
            for spec in specs:
                flags = ()
                if isinstance(spec, tuple):
                    spec, flags = spec
                configure_mapping(spec, work, flags)
                ctx.seen('forms', 'mapping+flags' if flags else 'mapping')
                eff = merged_spec(spec, flags)
                for label, tags, x in d1:
                    check_spec_pair(ctx, seed, x, eff, '%s->%s%s' % (sname, label, ' ' + ' '.join(flags) if flags else ''), configured=(spec, flags))
                    check_spec_pair(ctx, x, seed, eff, '%s<-%s%s' % (sname, label, ' ' + ' '.join(flags) if flags else ''), configured=(spec, flags))
                ctx.sample({'seed': sname, 'ignore_mapping': spec, 'edits': len(d1)}, rank=(sname, repr(spec)))
        finally:
            os.chdir('/')
            shutil.rmtree(work, ignore_errors=True)
            isolate.reset_globals()
        return
    _shard_subsets(sh, ctx)


def _shard_subsets(sh, ctx):
    import nbdime
    import nbdime.diffing.notebooks as nbs
    kind, sname, subsets = sh[:3]
    forms = sh[3] if len(sh) > 3 else ('negative-flags', 'positive-flags', 'config-booleans', 'ignore-mapping')
    seed, d1 = _G['space'][sname]
    work = tempfile.mkdtemp(prefix='c14-', dir=isolate.scratch_root())
    try:
        for S in subsets:
            S = frozenset(S)
            for form in forms:
                if not configure(form, S, work):
                    continue
                ctx.seen('forms', form)
                snapshot = isolate.global_state_digest()
                for label, tags, x in d1:
                    check_pair(ctx, seed, x, tags, S, form, '%s->%s' % (sname, label), _G['plain'][sname].get(label))
                if isolate.global_state_digest() != snapshot:
                    raise HarnessError('ignore configuration changed while diffing')
                # (iv) resetting restores the default behaviour
                nbs.set_notebook_diff_targets()
                for label, tags, x in d1[::5]:
                    ctx.count('evaluations')
                    ctx.count('reset_checks')
                    d = json.loads(json.dumps(nbdime.diff_notebooks(U.to_node(seed), U.to_node(x))))
                    if canon(d) != _G['plain'][sname][label]:
                        ctx.violation('%s|RESET|%s' % (PROP, form), 'after set_notebook_diff_targets() the diff differs from the diff without ignores',
                                      {'A': seed, 'B': x, 'ignored': sorted(S), 'form': form, 'label': label, 'reset': True})
            ctx.sample({'seed': sname, 'ignored': sorted(S), 'edits': len(d1)}, rank=(sname, sorted(S)))
    finally:
        os.chdir('/')
        shutil.rmtree(work, ignore_errors=True)
        isolate.reset_globals()


def controls():
    if set(c for c, p, o in leaked_entries([{'op': 'patch', 'key': 'cells', 'diff': [{'op': 'patch', 'key': 0, 'diff': [{'op': 'replace', 'key': 'id', 'value': 'x'}]}]}], {'id'})) != {'id'}:
        raise HarnessError('C14 control: id leak not recognised')
    if list(leaked_entries([{'op': 'patch', 'key': 'cells', 'diff': [{'op': 'addrange', 'key': 0, 'valuelist': [{}]}]}], set(CATS))):
        raise HarnessError('C14 control: whole-cell insert treated as a leak')
    nb = U.seeds()['Sjson']
    p = proj(nb, {'metadata', 'details'})
    if 'metadata' in p or any('metadata' in c for c in p['cells']) or 'metadata' in p['cells'][0]['outputs'][0] or 'execution_count' in p['cells'][0]:
        raise HarnessError('C14 control: projection')
    if not hidden_without_sources({'cats': ('metadata', 'outputs')}, {'metadata'}) or hidden_without_sources({'cats': ('sources',)}, {'sources'}) \
            or hidden_without_sources({'cats': (), 'multi': (('details',), ('outputs',))}, {'details'}):
        raise HarnessError('C14 control: hidden_without_sources')


def run(tier, seed):
    import nbdime
    isolate.setup_env()
    isolate.install_id_counter()
    S = U.seeds()
    names = ('S45', 'Sjson') if tier == 'quick' else ('S45', 'Sjson', 'S44', 'Ssim')
    space = {}
    plain = {}
    nstates = 0
    trans = 0
    for n in names:
        if tier == 'thorough' and n in ('S45', 'Sjson'):
            levels, t = U.explore(S[n], 2)
            trans += t
            d1 = []
            for lev in levels[1:]:
                for nb, path in lev:
                    tags = merge_tags([tg for _, tg in path])
                    d1.append(('+'.join(l for l, _ in path), tags, nb))
            d1 = d1[:len(levels[1])] + d1[len(levels[1])::7]
        else:
            d1 = U.depth1(S[n])
            trans += len(d1)
        space[n] = (S[n], d1)
        nstates += 1 + len(d1)
        isolate.reset_globals()
        plain[n] = {label: canon(json.loads(json.dumps(nbdime.diff_notebooks(U.to_node(S[n]), U.to_node(x))))) for label, tags, x in d1}
    # threshold family: payload sizes around the differ's size cut-offs (an output that stops being aligned is reported as removed + added, ignored
    # parts included); every subset for the small sizes, the subsets of {details, metadata, outputs} and the edits touching them for the large ones
    thr_subsets = [c for r in range(4) for c in itertools.combinations(('details', 'metadata', 'outputs'), r)]
    thr = {}
    for n in U.threshold_sizes():
        if n == 9999 or (tier == 'quick' and n in (999, 1001, 63, 65)):
            continue
        tseed, td1 = U.threshold_family(n)
        if n >= 9999:
            td1 = [(l, t, x) for l, t, x in td1 if set(t['cats']) & {'details', 'metadata'} or t.get('multi') or l.endswith(('html:mid', 'stream:last'))]
        name = 'Sthr%d' % n
        thr[name] = n
        space[name] = (tseed, td1)
        nstates += 1 + len(td1)
        trans += len(td1)
        isolate.reset_globals()
        plain[name] = {label: canon(json.loads(json.dumps(nbdime.diff_notebooks(U.to_node(tseed), U.to_node(x))))) for label, tags, x in td1}
    isolate.reset_globals()
    _G['space'] = space
    _G['plain'] = plain
    subsets = [c for r in range(len(CATS) + 1) for c in itertools.combinations(CATS, r)]
    shards = []
    for name, n in sorted(thr.items()):
        if n >= 9999:
            for S in thr_subsets:
                shards.append(('subsets', name, [S], ('negative-flags', 'ignore-mapping')))
        else:
            for ch in chunked(thr_subsets if n > 100 else subsets, 4):
                shards.append(('subsets', name, ch, ('negative-flags', 'ignore-mapping') if n > 100 else ('negative-flags', 'positive-flags', 'config-booleans', 'ignore-mapping')))
    for n in names:
        for ch in chunked(subsets, 32):
            shards.append(('subsets', n, ch))
        for spec in PATH_SPECS:
            shards.append(('pathspecs', n, [spec]))
        for spec in COMBINED_SPECS:
            shards.append(('pathspecs', n, [spec]))
    ctx = run_shards(_shard, shards, seed=seed, label=PROP)
    ev = ctx.counters['evaluations']
    return Result(
        ctx, level='exploration',
        rule=('every subset of the six categories x every expressible form (negative flags, positive flags, config booleans, Ignore mapping) x every '
              'edit of the seed; the configuration is installed through the real nbdiff parser / config file; non-trivial = at least one category ignored'),
        evaluations=ev, distinct_nontrivial=ctx.counters['nontrivial'],
        states=nstates, transitions=trans, traces_validated=ev, exhaustive=True,
        bounds={'tier': tier, 'subsets': len(subsets), 'seeds': {n: len(space[n][1]) for n in names},
                'threshold_family': {k: len(space[k][1]) for k in sorted(thr)}, 'threshold_subsets': len(thr_subsets)},
        assumptions=['category regions: sources=/cells/*/source, outputs=/cells/*/outputs, attachments=/cells/*/attachments, '
                     'metadata=/metadata,/cells/*/metadata,/cells/*/outputs/*/metadata, id=/cells/*/id, details=execution_count on cells and outputs',
                     'whole-cell and whole-output insertions/removals carry complete items and are exempt from clause (i) unless their own path is in an ignored region',
                     'clause (iii) is not demanded when an edit is hidden only through `sources` (the statement lists outputs, attachments, metadata, ids, details)'],
    )


def merge_tags(tags_list):
    groups = []
    for t in tags_list:
        for g in (t.get('multi') or (t['cats'],)):
            groups.append(tuple(g))
    if len(groups) == 1:
        return {'cats': groups[0], 'kind': 'path'}
    return {'cats': (), 'multi': tuple(groups), 'kind': 'path'}


def replay(case, ctx):
    import nbdime
    import nbdime.diffing.notebooks as nbs
    isolate.setup_env()
    isolate.install_id_counter()
    work = tempfile.mkdtemp(prefix='c14-', dir=isolate.scratch_root())
    S = frozenset(case.get('ignored', ()))
    if not case.get('path_level'):
        configure(case['form'], S, work)
    if case.get('path_level'):
        configure_mapping(case.get('configured_mapping', case['ignore_mapping']), work, tuple(case.get('flags', ())))
        check_spec_pair(ctx, case['A'], case['B'], case['ignore_mapping'], case.get('label', ''))
        isolate.reset_globals()
        return
    if case.get('reset'):
        nbs.set_notebook_diff_targets()
        d = json.loads(json.dumps(nbdime.diff_notebooks(U.to_node(case['A']), U.to_node(case['B']))))
        isolate.reset_globals()
        d0 = json.loads(json.dumps(nbdime.diff_notebooks(U.to_node(case['A']), U.to_node(case['B']))))
        if canon(d) != canon(d0):
            ctx.violation('%s|RESET|%s' % (PROP, case['form']), 'reset does not restore the default diff', case)
        return
    tags = {'cats': tuple(case['tags']['cats']), 'multi': tuple(tuple(g) for g in case['tags']['multi']) if case['tags'].get('multi') else None}
    check_pair(ctx, case['A'], case['B'], tags, S, case['form'], case.get('label', ''), None)
    isolate.reset_globals()
