"""C12 - diffing is a pure function of its inputs: no dependence on process history.

Explicit-state search over call histories inside one process, on the real code.

Events : diff(pair i), merge(triple j), set_notebook_diff_targets(flags k), set_notebook_diff_ignores(m),
         reset_notebook_differ().
State  : the live Python process.  fork() is the state copy: a node that has executed history h forks one
         child per event; the child executes exactly that one call, reports its observation and recurses.
         No prefix is ever replayed and no two histories are merged (so no canonicalisation argument is
         needed); the root has only imported nbdime.
Oracle : reference table - for every ignore state reachable by the configuration events (computed with a
         small executable model: per path default | ignore-all | ignore-keys(K)) a freshly started
         interpreter installs that state with one call and performs the observed call as its first call.
         Every observation on every transition of every history must equal the reference for
         (model state after the prefix, call).
"""
import hashlib
import json
import os
import pickle
import struct
import subprocess
import sys
import traceback

from .. import isolate, universe_nb as U
from ..engine import Ctx, canon, run_shards, HarnessError, time_limit
from ..run import Result

PROP = 'C12'

TARGET_PATHS = ['/cells/*/source', '/cells/*/outputs', '/cells/*/attachments', '/metadata', '/cells/*/id',
                '/cells/*/metadata', '/cells/*/outputs/*/metadata', '/cells/*', '/cells/*/outputs/*']


# ---------------------------------------------------------------------------------------------------
# event alphabet (plain data; built identically in the explorer and in the reference interpreters)
# ---------------------------------------------------------------------------------------------------

def build_events():
    import copy
    S = U.seeds()

    def d1(seed, label):
        for l, t, n in U.depth1(seed):
            if l == label:
                return n
        raise KeyError(label)
    sj = S['Sjson']
    sj_obj = copy.deepcopy(sj)
    sj_obj['metadata']['x'] = [{'k': 1}]
    sj_obj2 = copy.deepcopy(sj)
    sj_obj2['metadata']['x'] = [{'k': 2}, {'k': 1}]
    het = copy.deepcopy(sj)
    het['metadata']['x'] = [[0], {'k': 1}]
    het2 = copy.deepcopy(sj)
    het2['metadata']['x'] = [[0], {'k': 2}]
    diffs = [
        ('d0:S45 source edit', S['S45'], d1(S['S45'], 'src@0:repl1:a')),
        ('d1:S45 pointer change', S['S45'], d1(S['S45'], 'out@0:data1:pointer')),
        ('d2:Sjson list-of-lists metadata', sj, d1(sj, 'nbmeta:x-append')),
        ('d3:Sjson lists->objects', sj, sj_obj),
        ('d4:Sjson list-of-objects metadata', sj_obj, sj_obj2),
        ('d5:S44 cell insert', S['S44'], d1(S['S44'], 'cell-insert:C1@3')),
        ('d6:Ssim similar cells', S['Ssim'], d1(S['Ssim'], 'cell-delete@0')),
        ('d7:S45 id+details', d1(S['S45'], 'id@0:renamed'), d1(S['S45'], 'ec@0:7')),
        ('d8:S45 attachments', S['S45'], d1(S['S45'], 'att@1:replace:2')),
        ('d9:Sjson output metadata', sj, d1(sj, 'out@0:ometa0:unset')),
        ('d10:heterogeneous array', het, het2),
        ('d11:S45 cell metadata', S['S45'], d1(S['S45'], 'cellmeta@2:tags+extra')),
    ]
    # alignment that only the outputs can decide: one base cell, two look-alike candidates (no ids), the first with different outputs
    src = ''.join('value_%d = compute(%d)\n' % (k, k) for k in range(10))
    base_amb = U.notebook([U.code_cell(src, outputs=[U.stream('result 42\n' * 3)], ec=1)], 4, {})
    def rewrite(text, word, ks):
        for k in ks:
            text = text.replace('value_%d = compute(%d)' % (k, k), 'v%d = %s(%d) + 1' % (k, word, k))
        return text
    # similar enough for the approximate level (> 0.7) but not for the strict one (< 0.95): the moderate level, which looks at outputs, decides
    cand_same = U.code_cell(rewrite(src, 'evaluate', (1, 3, 5, 7)), outputs=[U.stream('result 42\n' * 3)], ec=1)
    cand_other = U.code_cell(rewrite(src, 'estimate', (0, 2, 6, 8)), outputs=[U.error()], ec=2)
    amb1 = U.notebook([cand_other, cand_same], 4, {})
    amb2 = U.notebook([cand_same, cand_other], 4, {})
    diffs.append(('d13:alignment decided by outputs (look-alike last)', base_amb, amb2))
    # the same pair of long, similar texts met first as cell sources (compared without a length cut-off) and later as stream outputs (cut-off at 1000
    # characters) and as text/plain results: a memo of string comparisons must not carry an answer across the two contexts
    long1 = ''.join('step %03d: residual=%d.%03d converged=no\n' % (k, k * 7 % 13, k * 37 % 1000) for k in range(40))
    long2 = long1.replace('step 007', 'step 7').replace('converged=no\n', 'converged=yes\n', 2)
    assert 1000 < len(long1) < 10000 and long1 != long2
    diffs.append(('d14:long similar texts as sources of id-less cells', U.notebook([U.md_cell(long1), U.md_cell('tail\n')], 4, {}), U.notebook([U.md_cell('head\n'), U.md_cell(long2)], 4, {})))
    diffs.append(('d15:the same long texts as stream outputs', U.notebook([U.code_cell('run()\n', outputs=[U.stream(long1)], ec=1, id='L0')], 5, {}),
                  U.notebook([U.code_cell('run()\n', outputs=[U.stream(long2)], ec=1, id='L0')], 5, {})))
    diffs.append(('d16:the same long texts as text/plain results', U.notebook([U.code_cell('run()\n', outputs=[U.exec_result({'text/plain': long1}, ec=1)], ec=1, id='L0')], 5, {}),
                  U.notebook([U.code_cell('run()\n', outputs=[U.exec_result({'text/plain': long2}, ec=1)], ec=1, id='L0')], 5, {})))
    merges = [
        ('m0:S45 same-line conflict', S['S45'], d1(S['S45'], 'src@0:repl1:a'), d1(S['S45'], 'src@0:repl1:b'), ['inline', None, None, True]),
        ('m1:S45 outputs conflict', S['S45'], d1(S['S45'], 'out@0:append:Ostream'), d1(S['S45'], 'out@0:append:Oerr'), ['inline', None, None, True]),
        ('m2:Sjson metadata lists vs objects', sj, d1(sj, 'nbmeta:x-append'), sj_obj, ['mergetool', None, None, True]),
        ('m3:Ssim line conflicts use-local', S['Ssim'], d1(S['Ssim'], 'src@0:repl1:a'), d1(S['Ssim'], 'src@0:tweak1'), ['use-local', None, None, True]),
        ('m4:S44 similar inserts', S['S44'], d1(S['S44'], 'cell-insert:C1@3'), d1(S['S44'], 'cell-insert:C2@3'), ['inline', None, None, True]),
        ('m5:S44 dissimilar inserts (marker cells, no ids)', S['S44'], d1(S['S44'], 'cell-insert:C3@3'), d1(S['S44'], 'cell-insert:M3@3'), ['inline', None, None, True]),
        ('m6:S45 dissimilar inserts (marker cells, ids)', S['S45'], d1(S['S45'], 'cell-insert:C3@3'), d1(S['S45'], 'cell-insert:M3@3'), ['inline', None, None, True]),
    ]
    # an API-level merge with the documented generic strategy "fail": raises by design when both sides patch the same line; the
    # exception must not leave anything behind that changes later merges (same-line patch/patch enters _merge_strings twice)
    def tweak(nb, text):
        nb = copy.deepcopy(nb)
        nb['cells'][0]['source'] = nb['cells'][0]['source'].replace('compute(1)', text)
        return nb
    merges.append(('m7:S45 same-line patches, strategy fail (raises by design)', S['S45'], tweak(S['S45'], 'compute(3)'), tweak(S['S45'], 'compute(5)'), ['fail', None, None, True]))
    merges.append(('m8:S45 same-line patches, use-remote', S['S45'], tweak(S['S45'], 'compute(3)'), tweak(S['S45'], 'compute(5)'), ['use-remote', None, None, True]))
    # the same local and remote texts merged from two different bases (clean from the first, a same-line conflict from the second): nothing remembered
    # about a pair of side texts may answer for another base
    def with_src(nb, text):
        nb = copy.deepcopy(nb)
        nb['cells'][0]['source'] = text
        return nb
    same_l = with_src(S['S45'], 'alpha = 1\nbeta = 2\ngamma = 3')
    same_r = with_src(S['S45'], 'alpha = 100\nbeta = 2\ngamma = 3')
    merges.append(('m9:same side texts, base differs in the last line', with_src(S['S45'], 'alpha = 1\nbeta = 2\ngamma = 0'), same_l, same_r, ['inline', None, None, True]))
    merges.append(('m10:same side texts, base differs in the first line', with_src(S['S45'], 'alpha = 0\nbeta = 2\ngamma = 3'), same_l, same_r, ['inline', None, None, True]))
    # a merge with transient-ignoring switched off (cell deleted by one side, only re-run by the other: a conflict then): defaults shared between
    # Strategies objects must not be changed by the merges with the default options that came before
    merges.append(('m11:S45 cell deleted vs re-run, transients not ignored', S['S45'], d1(S['S45'], 'cell-delete@0'), d1(S['S45'], 'ec@0:7'), ['inline', None, None, False]))
    targets = [
        ('t0:all on', dict(sources=True, outputs=True, attachments=True, metadata=True, identifier=True, details=True)),
        ('t1:no sources', dict(sources=False, outputs=True, attachments=True, metadata=True, identifier=True, details=True)),
        ('t2:no outputs', dict(sources=True, outputs=False, attachments=True, metadata=True, identifier=True, details=True)),
        ('t3:no metadata', dict(sources=True, outputs=True, attachments=True, metadata=False, identifier=True, details=True)),
        ('t4:no details', dict(sources=True, outputs=True, attachments=True, metadata=True, identifier=True, details=False)),
        ('t5:no id, no attachments', dict(sources=True, outputs=True, attachments=False, metadata=True, identifier=False, details=True)),
    ]
    ignores = [
        ('i0:outputs ignored', {'/cells/*/outputs': True}),
        ('i1:outputs restored', {'/cells/*/outputs': False}),
        ('i2:metadata keys', {'/metadata': ['kernelspec', 'x']}),
        ('i3:cell keys', {'/cells/*': ['execution_count', 'metadata']}),
    ]
    events = []
    for name, a, b in diffs:
        events.append({'kind': 'diff', 'name': name, 'a': a, 'b': b})
    for name, b, l, r, cfg in merges:
        events.append({'kind': 'merge', 'name': name, 'base': b, 'local': l, 'remote': r, 'cfg': cfg})
    for name, f in targets:
        events.append({'kind': 'targets', 'name': name, 'flags': f})
    for name, m in ignores:
        events.append({'kind': 'ignores', 'name': name, 'mapping': m})
    events.append({'kind': 'reset', 'name': 'r:reset_notebook_differ'})
    # the notebook server extension configures the ignores once, when it is loaded (real _load_jupyter_server_extension, stub server app)
    events.append({'kind': 'extload', 'name': 'x0:server extension loaded, no configuration', 'config': {}})
    events.append({'kind': 'extload', 'name': 'x1:server extension loaded, details off + outputs ignored',
                   'config': {'Extension': {'details': False, 'Ignore': {'/cells/*/outputs': True}}}})
    return events


# ---- model of the ignore options in force -----------------------------------------------------------

def model_step(state, ev):
    """state: dict path -> 'all' | tuple(sorted keys).  Mirrors the documented meaning of the calls:
    True -> ignore the path, False -> default, key list -> additionally ignore these sub-keys."""
    st = dict(state)
    if ev['kind'] == 'reset':
        return {}
    if ev['kind'] == 'targets':
        f = ev['flags']
        m = {
            '/cells/*/source': not f['sources'], '/cells/*/outputs': not f['outputs'], '/cells/*/attachments': not f['attachments'],
            '/metadata': not f['metadata'], '/cells/*/id': not f['identifier'], '/cells/*/metadata': not f['metadata'],
            '/cells/*/outputs/*/metadata': not f['metadata'],
            '/cells/*': False if f['details'] else ('execution_count',),
            '/cells/*/outputs/*': False if f['details'] else ('execution_count',),
        }
    elif ev['kind'] == 'ignores':
        m = ev['mapping']
    elif ev['kind'] == 'extload':
        ext = ev['config'].get('Extension', {})
        flags = {k: ext[k] for k in ('sources', 'outputs', 'attachments', 'metadata', 'id', 'details') if ext.get(k) is not None}
        if flags:
            # process_exclusive_ignorables: unspecified categories default to the opposite of the given ones
            default = not list(flags.values())[0]
            full = {k: flags.get(k, default) for k in ('sources', 'outputs', 'attachments', 'metadata', 'id', 'details')}
            full['identifier'] = full.pop('id')
            st = model_step(st, {'kind': 'targets', 'flags': full})
        if ext.get('Ignore'):
            st = model_step(st, {'kind': 'ignores', 'mapping': ext['Ignore']})
        return st
    else:
        return st
    for p, v in m.items():
        if v is True:
            st[p] = 'all'
        elif v is False:
            st.pop(p, None)
        else:
            cur = st.get(p)
            if cur == 'all':
                pass
            elif cur is None:
                st[p] = tuple(sorted(set(v)))
            else:
                st[p] = tuple(sorted(set(cur) | set(v)))
    return st


def state_key(state):
    return json.dumps(sorted((p, v if v == 'all' else list(v)) for p, v in state.items()))


def state_to_mapping(state):
    return {p: (True if v == 'all' else list(v)) for p, v in state.items()}


# ---- executing one event in the current process --------------------------------------------------------

def execute(ev):
    """Returns the observation digest of one event executed in *this* process."""
    import nbdime
    import nbdime.diffing.notebooks as nbs
    k = ev['kind']
    if k == 'diff':
        try:
            with time_limit(30):
                d = nbdime.diff_notebooks(U.to_node(ev['a']), U.to_node(ev['b']))
            return 'OK:' + hashlib.sha1(canon(d).encode('utf8')).hexdigest()[:16]
        except Exception as e:
            return 'EXC:%s' % type(e).__name__
    if k == 'merge':
        from ..mergecore import args_for
        from nbdime.merging.notebooks import merge_notebooks
        cfg = tuple(ev['cfg'])
        if cfg[0] == 'fail':
            args = args_for(('inline',) + cfg[1:])
            args.merge_strategy = 'fail'        # not offered by the CLI; a library caller can pass any generic strategy
        else:
            args = args_for(cfg)
        try:
            with time_limit(30):
                m, decs = merge_notebooks(U.to_node(ev['base']), U.to_node(ev['local']), U.to_node(ev['remote']), args)
            # ids of conflict-marker cells come from nbformat's random generator (a counter in this harness): not an observation
            import re
            text = re.sub(r'verif-id-\d+', '<generated-id>', canon([m, decs]))
            return 'OK:' + hashlib.sha1(text.encode('utf8')).hexdigest()[:16]
        except Exception as e:
            return 'EXC:%s' % type(e).__name__
    if k == 'targets':
        nbs.set_notebook_diff_targets(**ev['flags'])
        return 'CFG'
    if k == 'ignores':
        nbs.set_notebook_diff_ignores(dict(ev['mapping']))
        return 'CFG'
    if k == 'reset':
        nbs.reset_notebook_differ()
        return 'CFG'
    if k == 'extload':
        import tempfile
        import shutil
        stubs = os.path.join(os.path.dirname(os.path.dirname(os.path.abspath(__file__))), 'stubs')
        if stubs not in sys.path:
            sys.path.insert(0, stubs)
        import jinja2
        from nbdime.webapp import nb_server_extension as ext

        class WebApp(object):
            def __init__(self):
                self.settings = {'jinja2_env': jinja2.Environment(loader=jinja2.FileSystemLoader([])), 'static_path': [], 'base_url': '/'}

            def add_handlers(self, pattern, handlers):
                self.handlers = handlers

        class App(object):
            web_app = WebApp()
            log = None
        d = tempfile.mkdtemp(prefix='c12x-', dir=isolate.scratch_root())
        cwd = os.getcwd()
        try:
            if ev['config']:
                with open(os.path.join(d, 'nbdime_config.json'), 'w') as f:
                    json.dump(ev['config'], f)
            os.chdir(d)
            ext._load_jupyter_server_extension(App())
        finally:
            os.chdir(cwd)
            shutil.rmtree(d, ignore_errors=True)
        return 'CFG'
    raise ValueError(k)


# ---- reference table -------------------------------------------------------------------------------------

def reference_main(argv):
    """Runs inside a freshly started interpreter: install one ignore state, then fork one child per
    call event; each child performs that call as the first call of its process."""
    isolate.setup_env()
    isolate.install_id_counter()
    mapping = json.loads(argv[0])
    import nbdime.diffing.notebooks as nbs
    if mapping:
        nbs.set_notebook_diff_ignores(mapping)
    events = build_events()
    out = {}
    for idx, ev in enumerate(events):
        if ev['kind'] not in ('diff', 'merge'):
            continue
        r, w = os.pipe()
        pid = os.fork()
        if pid == 0:
            try:
                os.close(r)
                obs = execute(ev)
                os.write(w, obs.encode('utf8'))
            finally:
                os._exit(0)
        os.close(w)
        data = b''
        while True:
            chunk = os.read(r, 65536)
            if not chunk:
                break
            data += chunk
        os.close(r)
        os.waitpid(pid, 0)
        out[str(idx)] = data.decode('utf8')
    sys.stdout.write(json.dumps(out))


def compute_reference(states):
    """states: dict key -> state.  One fresh interpreter per state (16 at a time)."""
    keys = sorted(states)
    procs = {}
    ref = {}
    env = dict(os.environ)
    env['PATH'] = env.get('VERIF_ORIG_PATH', env.get('PATH', ''))
    pending = list(keys)
    running = []
    while pending or running:
        while pending and len(running) < 16:
            k = pending.pop()
            p = subprocess.Popen([sys.executable, '-c', 'import sys; from mc.props.C12 import reference_main; reference_main(sys.argv[1:])',
                                  json.dumps(state_to_mapping(states[k]))], stdout=subprocess.PIPE, stderr=subprocess.PIPE, env=env)
            running.append((k, p))
        k, p = running.pop(0)
        out, err = p.communicate()
        if p.returncode != 0:
            raise HarnessError('reference interpreter failed for state %s:\n%s' % (k, err.decode('utf8', 'replace')[-2000:]))
        ref[k] = {int(i): v for i, v in json.loads(out.decode('utf8')).items()}
    return ref


# ---- the fork tree -------------------------------------------------------------------------------------------

def _send(fd, obj):
    data = pickle.dumps(obj)
    os.write(fd, struct.pack('<Q', len(data)))
    off = 0
    while off < len(data):
        off += os.write(fd, data[off:off + 65536])


def _recv(fd):
    hdr = b''
    while len(hdr) < 8:
        c = os.read(fd, 8 - len(hdr))
        if not c:
            return None
        hdr += c
    n = struct.unpack('<Q', hdr)[0]
    data = b''
    while len(data) < n:
        c = os.read(fd, min(1 << 20, n - len(data)))
        if not c:
            return None
        data += c
    return pickle.loads(data)


_G = {}


def explore_child(history, state, depth_left, ctx):
    """Runs in a process whose live state is the result of `history`.  For every event: fork, execute in
    the child, check, recurse in the child; aggregate into ctx."""
    events = _G['events']
    ref = _G['ref']
    for idx, ev in enumerate(events):
        r, w = os.pipe()
        pid = os.fork()
        if pid == 0:
            sub = Ctx()
            try:
                os.close(r)
                obs = execute(ev)
                sub.count('transitions')
                nstate = model_step(state, ev)
                h2 = history + [idx]
                if ev['kind'] in ('diff', 'merge'):
                    sub.count('evaluations')
                    if history:
                        sub.count('nontrivial')
                    want = ref[state_key(state)][idx]
                    sub.seen('outcomes', obs)
                    if obs != want:
                        kind = 'raises' if obs.startswith('EXC') and not want.startswith('EXC') else 'differs'
                        sub.violation('%s|HISTORY|%s|%s|%s' % (PROP, ev['kind'], kind, obs if obs.startswith('EXC') else 'result'),
                                      'after history %s the call %r gives %s, a fresh interpreter with the same ignore options gives %s'
                                      % ([events[i]['name'] for i in history], ev['name'], obs, want),
                                      {'history': [events[i]['name'] for i in h2], 'history_idx': h2, 'observed': obs, 'fresh': want})
                if depth_left > 1:
                    explore_child(h2, nstate, depth_left - 1, sub)
                _send(w, sub)
            except BaseException:
                try:
                    _send(w, ('ERR', traceback.format_exc()))
                except Exception:
                    pass
            finally:
                os._exit(0)
        os.close(w)
        res = _recv(r)
        os.close(r)
        os.waitpid(pid, 0)
        if res is None or isinstance(res, tuple):
            raise HarnessError('history child failed at %r + %r: %s' % (history, ev['name'], res[1] if res else 'no data'))
        ctx.merge(res)


def _shard(sh, ctx):
    """A pool worker never executes an event itself (it must stay pristine for its next shard): it forks a
    child that executes the shard's first event and explores below it."""
    first, depth = sh
    events = _G['events']
    r, w = os.pipe()
    pid = os.fork()
    if pid == 0:
        sub = Ctx()
        try:
            os.close(r)
            ev = events[first]
            obs = execute(ev)
            sub.count('transitions')
            state = model_step({}, ev)
            if ev['kind'] in ('diff', 'merge'):
                sub.count('evaluations')
                want = _G['ref'][state_key({})][first]
                sub.seen('outcomes', obs)
                if obs != want:
                    sub.violation('%s|FIRST-CALL|%s' % (PROP, ev['kind']), 'first call differs from the reference interpreter: %s vs %s' % (obs, want),
                                  {'history': [ev['name']], 'history_idx': [first], 'observed': obs, 'fresh': want})
            if depth > 1:
                explore_child([first], state, depth - 1, sub)
            sub.sample({'history_prefix': [ev['name']], 'explored_depth': depth}, rank=first)
            _send(w, sub)
        except BaseException:
            try:
                _send(w, ('ERR', traceback.format_exc()))
            except Exception:
                pass
        finally:
            os._exit(0)
    os.close(w)
    res = _recv(r)
    os.close(r)
    os.waitpid(pid, 0)
    if res is None or isinstance(res, tuple):
        raise HarnessError('history root failed: %s' % (res[1] if res else 'no data'))
    ctx.merge(res)


def reachable_states(events, depth):
    cfg = [e for e in events if e['kind'] in ('targets', 'ignores', 'reset', 'extload')]
    states = {state_key({}): {}}
    frontier = [{}]
    for _ in range(depth):
        nxt = []
        for s in frontier:
            for e in cfg:
                t = model_step(s, e)
                k = state_key(t)
                if k not in states:
                    states[k] = t
                    nxt.append(t)
        frontier = nxt
    return states


def controls():
    s = model_step({}, {'kind': 'ignores', 'mapping': {'/a': True, '/b': ['x']}})
    s = model_step(s, {'kind': 'ignores', 'mapping': {'/a': ['k'], '/b': ['y'], '/c': False}})
    if s != {'/a': 'all', '/b': ('x', 'y')}:
        raise HarnessError('C12 control: model_step %r' % (s,))
    if model_step(s, {'kind': 'reset'}) != {}:
        raise HarnessError('C12 control: reset')


def run(tier, seed):
    isolate.setup_env()
    isolate.install_id_counter()
    if 'nbdime.diffing.notebooks' in sys.modules:
        import nbdime.diffing.notebooks as nbs
        if nbs.notebook_differs.keys() or nbs.notebook_predicates.keys():
            raise HarnessError('explorer root is not pristine')
    depth = 3 if tier == 'quick' else 4
    events = build_events()
    import nbdime  # noqa: the root has imported nbdime, nothing else
    from ..mergecore import args_for
    for e in events:
        if e['kind'] == 'merge':
            args_for(tuple(e['cfg']) if e['cfg'][0] != 'fail' else ('inline',) + tuple(e['cfg'][1:]))      # parser construction happens before any fork (it reads configuration, touches no differ state)
    states = reachable_states(events, depth - 1)
    ref = compute_reference(states)
    _G['events'] = events
    _G['ref'] = ref
    shards = [(i, depth) for i in range(len(events))]
    ctx = run_shards(_shard, shards, seed=seed, label=PROP)
    n = len(events)
    histories = sum(n ** d for d in range(1, depth + 1))
    if ctx.counters['transitions'] != histories:
        raise HarnessError('explored %d transitions, expected %d' % (ctx.counters['transitions'], histories))
    ncalls = len([e for e in events if e['kind'] in ('diff', 'merge')])
    return Result(
        ctx, level='model_checking',
        rule=('all histories of length <= %d over %d events (no state merging); an evaluation is a diff/merge call observed at the end of a '
              'history; distinct by construction (distinct histories); non-trivial = the call is preceded by at least one other event' % (depth, n)),
        evaluations=ctx.counters['evaluations'], distinct_nontrivial=ctx.counters['nontrivial'],
        states=histories + 1, transitions=ctx.counters['transitions'], traces_validated=ctx.counters['transitions'], exhaustive=True,
        bounds={'tier': tier, 'history_length': depth, 'events': [e['name'] for e in events], 'reference_states': len(states),
                'reference_entries': len(states) * ncalls},
        assumptions=['the ignore options in force are modelled per path as default | ignore-all | ignore-keys(K); a key list adds to what is '
                     'already ignored on that path (the documented behaviour of set_notebook_diff_ignores)',
                     'reference = first call in a freshly started interpreter (one interpreter per ignore state, one forked child per call)'],
        extra={'distinct_outcomes': len(ctx.sets.get('outcomes', ()))},
    )


def replay(case, ctx):
    """Re-execute one history in a fresh child process and compare its last observation with a fresh interpreter."""
    isolate.setup_env()
    isolate.install_id_counter()
    events = build_events()
    hist = case['history_idx']
    state = {}
    for i in hist[:-1]:
        state = model_step(state, events[i])
    ref = compute_reference({state_key(state): state})
    want = ref[state_key(state)][hist[-1]]
    r, w = os.pipe()
    pid = os.fork()
    if pid == 0:
        try:
            os.close(r)
            obs = None
            for i in hist:
                obs = execute(events[i])
            os.write(w, obs.encode('utf8'))
        finally:
            os._exit(0)
    os.close(w)
    obs = os.read(r, 65536).decode('utf8')
    os.close(r)
    os.waitpid(pid, 0)
    print('history:', [events[i]['name'] for i in hist])
    print('observed:', obs, 'fresh:', want)
    if obs != want:
        ev = events[hist[-1]]
        kind = 'raises' if obs.startswith('EXC') and not want.startswith('EXC') else 'differs'
        ctx.violation('%s|HISTORY|%s|%s|%s' % (PROP, ev['kind'], kind, obs if obs.startswith('EXC') else 'result'), 'history-dependent result', case)
