"""C18 - git integration setup is idempotent and never touches foreign settings.

Explicit-state search with real git and nbdime's real enable/disable entry points.

State  : a world directory holding an isolated HOME (global git config + global attributes file) and a
         repository (.git/config, .gitattributes); canonical key = (local config entries, global config
         entries, repository attributes bytes, global attributes bytes).  State copy = copy of the directory.
Events : the per-driver / per-tool `config --enable|--disable [--global] [--set-default]` mains and the combined
         `nbdime config-git --enable|--disable [--global]`, executed in-process with cwd and HOME pointing into
         the world.
Oracle : evaluated on every transition (pre state, event, post state): enable twice == enable once; enable adds
         only nbdime's own keys (plus the prompt defaults and, with --set-default, the default-tool key) in the
         addressed scope; the attributes file keeps its old bytes as a prefix and gains at most one line per
         driver, which `git check-attr` then honours; disable removes the driver sections of that scope, and
         no transition changes or removes a key that points at another tool, nor touches the other scope.
"""
import hashlib
import io
import json
import os
import shutil
import subprocess
import sys
import tempfile

from .. import isolate
from ..engine import Ctx, canon, run_shards, chunked, HarnessError, time_limit
from ..findings import exc_fingerprint
from ..run import Result

PROP = 'C18'
STUBS = os.path.join(os.path.dirname(os.path.dirname(os.path.abspath(__file__))), 'stubs')

OWN_KEYS = {'diff.jupyternotebook.command', 'merge.jupyternotebook.driver', 'merge.jupyternotebook.name',
            'difftool.nbdime.cmd', 'mergetool.nbdime.cmd'}
PROMPT_KEYS = {'difftool.prompt', 'mergetool.prompt'}
DEFAULT_KEYS = {'diff.guitool', 'merge.tool'}
DIFF_LINE = '*.ipynb\tdiff=jupyternotebook'
MERGE_LINE = '*.ipynb\tmerge=jupyternotebook'


def events():
    evs = []
    for scope in ('repo', 'global'):
        for tool in ('diffdriver', 'mergedriver'):
            for act in ('enable', 'disable'):
                evs.append((tool, act, scope, False))
        for tool in ('difftool', 'mergetool'):
            evs.append((tool, 'enable', scope, False))
            evs.append((tool, 'enable', scope, True))
            evs.append((tool, 'disable', scope, False))
        evs.append(('config-git', 'enable', scope, False))
        evs.append(('config-git', 'disable', scope, False))
    return evs


def ev_name(ev):
    tool, act, scope, sd = ev
    return '%s --%s%s%s' % (tool, act, ' --global' if scope == 'global' else '', ' --set-default' if sd else '')


def world_env(world):
    home = os.path.join(world, 'home')
    os.environ['HOME'] = home
    os.environ['XDG_CONFIG_HOME'] = os.path.join(home, '.config')
    os.environ['PATH'] = os.environ['VERIF_ORIG_PATH']


def git(world, *args, check=True):
    world_env(world)
    r = subprocess.run(['git'] + list(args), cwd=os.path.join(world, 'repo'), stdout=subprocess.PIPE, stderr=subprocess.PIPE)
    if check and r.returncode != 0:
        raise HarnessError('git %s failed: %s' % (' '.join(args), r.stderr.decode('utf8', 'replace')))
    return r


def initial_configs(tier):
    """Descriptions of initial worlds."""
    out = []
    tools = ('unset', 'nbdime', 'other')
    prompts = (('unset', 'unset'), ('true', 'true')) if tier == 'quick' else (('unset', 'unset'), ('true', 'true'), ('true', 'unset'), ('unset', 'true'))
    for mt in tools:
        for gt in tools:
            for pr in prompts:
                for attrs in ('absent', 'unrelated', 'present'):
                    for where in (('repo',) if tier == 'quick' else ('repo', 'global')):
                        out.append({'merge.tool': mt, 'diff.guitool': gt, 'prompts': pr, 'attrs': attrs, 'where': where})
    if tier == 'quick':
        # one third of the product in the quick tier: every value of every factor still occurs with every value of every other factor
        out = [c for i, c in enumerate(out) if (tools.index(c['merge.tool']) + tools.index(c['diff.guitool']) + ('absent', 'unrelated', 'present').index(c['attrs'])) % 3 == 0 or c['attrs'] == 'unrelated' and c['prompts'][0] == 'true'] + \
              [{'merge.tool': t, 'diff.guitool': t, 'prompts': ('true', 'true'), 'attrs': 'unrelated', 'where': 'global'} for t in ('other', 'nbdime')]
    return out


def make_world(world, cfg):
    os.makedirs(os.path.join(world, 'home', '.config', 'git'))
    repo = os.path.join(world, 'repo')
    os.makedirs(repo)
    world_env(world)
    git(world, 'init', '-q', '-b', 'main')
    sc = ['--local'] if cfg['where'] == 'repo' else ['--global']
    other = {'merge.tool': 'meld', 'diff.guitool': 'kdiff3'}
    for key in ('merge.tool', 'diff.guitool'):
        v = cfg[key]
        if v != 'unset':
            git(world, 'config', *sc, key, 'nbdime' if v == 'nbdime' else other[key])
    for key, v in zip(('mergetool.prompt', 'difftool.prompt'), cfg['prompts']):
        if v != 'unset':
            git(world, 'config', *sc, key, v)
    # foreign driver/tool entries that must survive everything
    git(world, 'config', *sc, 'diff.other.command', 'other-diff')
    git(world, 'config', *sc, 'merge.other.driver', 'other-merge %O %A %B')
    git(world, 'config', *sc, 'mergetool.meld.cmd', 'meld "$LOCAL" "$MERGED" "$REMOTE"')
    apath = os.path.join(repo, '.gitattributes') if cfg['where'] == 'repo' else os.path.join(world, 'home', '.config', 'git', 'attributes')
    if cfg['attrs'] == 'unrelated':
        with open(apath, 'w') as f:
            f.write('*.txt text\n*.png binary')          # no final newline
    elif cfg['attrs'] == 'present':
        with open(apath, 'w') as f:
            f.write('*.txt text\n%s\n%s\n' % (DIFF_LINE, MERGE_LINE))


def observe(world):
    def cfg(scope):
        r = git(world, 'config', '--' + scope, '--list', '-z', check=False)
        out = {}
        if r.returncode == 0:
            for item in r.stdout.decode('utf8').split('\0'):
                if item:
                    k, _, v = item.partition('\n')
                    out.setdefault(k, []).append(v)
        return out

    def rd(p):
        try:
            with open(p, 'rb') as f:
                return f.read().decode('utf8', 'replace')
        except IOError:
            return None
    st = {
        'local': cfg('local'), 'global': cfg('global'),
        'attrs_repo': rd(os.path.join(world, 'repo', '.gitattributes')),
        'attrs_global': rd(os.path.join(world, 'home', '.config', 'git', 'attributes')),
    }
    r = git(world, 'check-attr', 'diff', 'merge', '--', 'x.ipynb', check=False)
    st['check_attr'] = sorted(l.split(': ', 1)[1] for l in r.stdout.decode().splitlines() if ': ' in l)
    return st


def state_key(st):
    return hashlib.sha1(canon([st['local'], st['global'], st['attrs_repo'], st['attrs_global']]).encode()).hexdigest()


def run_event(world, ev):
    """Execute one nbdime config command in-process inside the world.  Returns (return code, exception)."""
    tool, act, scope, sd = ev
    world_env(world)
    os.chdir(os.path.join(world, 'repo'))
    argv = ['config', '--' + act]
    if scope == 'global':
        argv.append('--global')
    if sd:
        argv.append('--set-default')
    so, se = sys.stdout, sys.stderr
    sys.stdout, sys.stderr = io.StringIO(), io.StringIO()
    saved2 = os.dup(2)
    devnull = os.open(os.devnull, os.O_WRONLY)
    os.dup2(devnull, 2)          # git's own stderr chatter ("no such section") is not an observation
    try:
        with time_limit(60):
            if tool == 'config-git':
                from nbdime.__main__ import main_dispatch
                rc = main_dispatch(['config-git'] + argv[1:])
            else:
                import importlib
                mod = importlib.import_module('nbdime.vcs.git.' + tool)
                rc = mod.main(argv)
        return rc, None
    except SystemExit as e:
        return ('exit', e.code), None
    except Exception as e:
        return None, e
    finally:
        os.dup2(saved2, 2)
        os.close(saved2)
        os.close(devnull)
        sys.stdout, sys.stderr = so, se
        os.chdir('/')


# ---- oracle ------------------------------------------------------------------------------------------------

def classify_key(k, v):
    if k in OWN_KEYS:
        return 'own'
    if k in PROMPT_KEYS:
        return 'prompt'
    if k in DEFAULT_KEYS:
        return 'default:' + ('nbdime' if v == ['nbdime'] else 'other')
    return 'foreign'


def check_transition(ctx, pre, ev, post, rc, exc, case):
    tool, act, scope, sd = ev
    name = '%s-%s' % (tool, act) + ('-default' if sd else '')
    if exc is not None:
        ctx.violation(exc_fingerprint(PROP, exc, 'EXC|' + name), '%s raised %s: %s' % (ev_name(ev), type(exc).__name__, exc), case)
        return
    if rc not in (0, None):
        ctx.violation('%s|STATUS|%s' % (PROP, name), '%s returned %r' % (ev_name(ev), rc), case)
    mine = 'local' if scope == 'repo' else 'global'
    theirs = 'global' if scope == 'repo' else 'local'
    my_attrs = 'attrs_repo' if scope == 'repo' else 'attrs_global'
    their_attrs = 'attrs_global' if scope == 'repo' else 'attrs_repo'
    if pre[theirs] != post[theirs] or pre[their_attrs] != post[their_attrs]:
        ctx.violation('%s|OTHER-SCOPE-TOUCHED|%s' % (PROP, name), '%s changed the %s scope' % (ev_name(ev), theirs), case)
    a, b = pre[mine], post[mine]
    added = {k: b[k] for k in b if k not in a}
    removed = {k: a[k] for k in a if k not in b}
    changed = {k: (a[k], b[k]) for k in a if k in b and a[k] != b[k]}
    drivers = {'diffdriver': {'diff.jupyternotebook.command'}, 'mergedriver': {'merge.jupyternotebook.driver', 'merge.jupyternotebook.name'},
               'difftool': {'difftool.nbdime.cmd'}, 'mergetool': {'mergetool.nbdime.cmd'}}
    tools = list(drivers) if tool == 'config-git' else [tool]
    if act == 'enable':
        allowed = set()
        for t in tools:
            allowed |= drivers[t]
            if t == 'difftool':
                allowed.add('difftool.prompt')
                if sd:
                    allowed.add('diff.guitool')
            if t == 'mergetool':
                allowed.add('mergetool.prompt')
                if sd:
                    allowed.add('merge.tool')
        for k in sorted(set(added) | set(changed)):
            if k not in allowed:
                ctx.violation('%s|ENABLE-SETS-FOREIGN-KEY|%s|%s' % (PROP, name, classify_key(k, a.get(k))), '%s set %s' % (ev_name(ev), k), case)
        for k in sorted(removed):
            ctx.violation('%s|ENABLE-REMOVES-KEY|%s|%s' % (PROP, name, classify_key(k, a[k])), '%s removed %s' % (ev_name(ev), k), case)
        for k in allowed:
            if k in OWN_KEYS and k not in b:
                ctx.violation('%s|ENABLE-INCOMPLETE|%s|%s' % (PROP, name, k), '%s did not set %s' % (ev_name(ev), k), case)
            if k in b and len(b[k]) != 1:
                ctx.violation('%s|ENABLE-DUPLICATE-VALUE|%s|%s' % (PROP, name, k), '%s left %d values for %s' % (ev_name(ev), len(b[k]), k), case)
        for k in PROMPT_KEYS & allowed:
            if b.get(k) != ['false']:
                ctx.violation('%s|ENABLE-PROMPT|%s' % (PROP, name), '%s did not set %s=false' % (ev_name(ev), k), case)
        # attributes
        old = pre[my_attrs] or ''
        new = post[my_attrs] or ''
        if not new.startswith(old):
            ctx.violation('%s|ATTRIBUTES-CONTENT-LOST|%s' % (PROP, name), '%s did not keep the existing attributes content' % ev_name(ev), case)
        else:
            extra = [l for l in new[len(old):].split('\n') if l.strip()]
            want = []
            if 'diffdriver' in tools and 'diff=jupyternotebook' not in old:
                want.append(DIFF_LINE)
            if 'mergedriver' in tools and 'merge=jupyternotebook' not in old:
                want.append(MERGE_LINE)
            if sorted(extra) != sorted(want):
                ctx.violation('%s|ATTRIBUTES-LINES|%s' % (PROP, name), '%s appended %r to the attributes file, expected %r' % (ev_name(ev), extra, want), case)
        ca = post['check_attr']
        if 'diffdriver' in tools and scope == 'repo' and 'jupyternotebook' not in ' '.join(ca[:1]):
            ctx.violation('%s|CHECK-ATTR|diff' % PROP, 'after %s git check-attr does not route *.ipynb diffs to the driver: %r' % (ev_name(ev), ca), case)
        if 'mergedriver' in tools and scope == 'repo' and 'jupyternotebook' not in ' '.join(ca[1:]):
            ctx.violation('%s|CHECK-ATTR|merge' % PROP, 'after %s git check-attr does not route *.ipynb merges to the driver: %r' % (ev_name(ev), ca), case)
    else:
        removable = set()
        for t in tools:
            if t in ('diffdriver', 'mergedriver'):
                removable |= drivers[t]
        for k, v in sorted(removed.items()):
            if k in removable:
                continue
            if k == 'diff.guitool' and 'difftool' in tools and v == ['nbdime']:
                continue
            if k == 'merge.tool' and 'mergetool' in tools and v == ['nbdime']:
                continue
            ctx.violation('%s|DISABLE-REMOVES|%s|%s' % (PROP, name, classify_key(k, v)), '%s removed %s=%r' % (ev_name(ev), k, v), case)
        for k in sorted(changed):
            ctx.violation('%s|DISABLE-CHANGES|%s|%s' % (PROP, name, classify_key(k, a[k])), '%s changed %s' % (ev_name(ev), k), case)
        for k in sorted(added):
            ctx.violation('%s|DISABLE-ADDS|%s' % (PROP, name), '%s added %s' % (ev_name(ev), k), case)
        for k in removable:
            if k in b:
                ctx.violation('%s|DISABLE-INCOMPLETE|%s|%s' % (PROP, name, k), '%s left %s in place' % (ev_name(ev), k), case)
        if pre[my_attrs] != post[my_attrs]:
            ctx.violation('%s|DISABLE-TOUCHES-ATTRIBUTES|%s' % (PROP, name), '%s changed the attributes file' % ev_name(ev), case)


# ---- exploration ---------------------------------------------------------------------------------------------

_G = {}


def _shard(sh, ctx):
    out = []
    local_seen = set()
    base = tempfile.mkdtemp(prefix='c18-', dir=_G['store'])
    n = 0
    for init_idx, sdir, history in sh:
        pre = observe(sdir)
        for ev in _G['events']:
            n += 1
            child = os.path.join(base, '%d' % n)
            shutil.copytree(sdir, child, symlinks=True)
            rc, exc = run_event(child, ev)
            post = observe(child)
            ctx.count('transitions')
            ctx.count('evaluations')
            if canon(pre) != canon(post):
                ctx.count('nontrivial')
            case = {'initial': _G['inits'][init_idx], 'history': history, 'event': list(ev), 'event_name': ev_name(ev)}
            check_transition(ctx, pre, ev, post, rc, exc, case)
            if ev[1] == 'enable' and exc is None:
                # idempotence: the same command once more must change nothing
                again = os.path.join(base, 'again')
                if os.path.exists(again):
                    shutil.rmtree(again)
                shutil.copytree(child, again, symlinks=True)
                rc2, exc2 = run_event(again, ev)
                post2 = observe(again)
                ctx.count('idempotence_checks')
                if exc2 is not None or canon(post2) != canon(post):
                    diffkeys = sorted(k for k in post if canon(post[k]) != canon(post2.get(k)))
                    ctx.violation('%s|NOT-IDEMPOTENT|%s|%s' % (PROP, '%s-%s' % (ev[0], ev[1]) + ('-default' if ev[3] else ''), ','.join(diffkeys) or 'raises'),
                                  'running %s a second time changes %s' % (ev_name(ev), diffkeys), case)
                shutil.rmtree(again, ignore_errors=True)
            key = state_key(post)
            if _G.get('last_level') or (init_idx, key) in _G['seen_keys'] or (init_idx, key) in local_seen:
                shutil.rmtree(child, ignore_errors=True)
                out.append((init_idx, key, None, None))
            else:
                local_seen.add((init_idx, key))
                out.append((init_idx, key, child, history + [ev_name(ev)]))
    ctx.notes.append('CHILDREN' + json.dumps(out))
    if sh:
        ctx.sample({'initial': _G['inits'][sh[0][0]], 'history': sh[0][2], 'events_applied': len(_G['events'])}, rank=(sh[0][0], repr(sh[0][2])))


def controls():
    pre = {'local': {'merge.tool': ['meld']}, 'global': {}, 'attrs_repo': 'a', 'attrs_global': None, 'check_attr': []}
    post = {'local': {}, 'global': {}, 'attrs_repo': 'a', 'attrs_global': None, 'check_attr': []}
    c = Ctx()
    check_transition(c, pre, ('mergetool', 'disable', 'repo', False), post, 0, None, {})
    if not any(f.startswith('C18|DISABLE-REMOVES|mergetool-disable|default:other') for f in c.viol):
        raise HarnessError('C18 control: removal of a foreign merge.tool not flagged')
    pre['local'] = {'merge.tool': ['nbdime']}
    c = Ctx()
    check_transition(c, pre, ('mergetool', 'disable', 'repo', False), post, 0, None, {})
    if c.viol:
        raise HarnessError('C18 control: removal of merge.tool=nbdime flagged: %r' % list(c.viol))
    c = Ctx()
    pre2 = {'local': {}, 'global': {}, 'attrs_repo': 'x', 'attrs_global': None, 'check_attr': []}
    post2 = {'local': {'diff.jupyternotebook.command': ['c']}, 'global': {}, 'attrs_repo': 'x\n%s\n\n%s\n' % (DIFF_LINE, DIFF_LINE), 'attrs_global': None, 'check_attr': ['jupyternotebook', 'unspecified']}
    check_transition(c, pre2, ('diffdriver', 'enable', 'repo', False), post2, 0, None, {})
    if not any(f.startswith('C18|ATTRIBUTES-LINES') for f in c.viol):
        raise HarnessError('C18 control: duplicated attributes line not flagged')


def run(tier, seed):
    isolate.setup_env()
    if STUBS not in sys.path:
        sys.path.insert(0, STUBS)
    import nbdime.vcs.git.difftool, nbdime.vcs.git.mergetool, nbdime.vcs.git.diffdriver, nbdime.vcs.git.mergedriver  # noqa
    store = tempfile.mkdtemp(prefix='c18store-', dir=isolate.scratch_root())
    _G['store'] = store
    _G['events'] = events()
    inits = initial_configs(tier)
    _G['inits'] = inits
    depth = 2 if tier == 'quick' else 3
    seen = {}
    frontier = []
    for i, cfg in enumerate(inits):
        w = os.path.join(store, 'init-%d' % i)
        make_world(w, cfg)
        k = (i, state_key(observe(w)))
        seen[k] = w
        frontier.append((i, w, []))
    total = Ctx()
    levels = [len(frontier)]
    # thorough tier: the third level is only expanded below the initial configurations of the quick tier (the closure grows by a factor of about ten per
    # level; 216 x depth 3 takes hours), all 216 configurations are explored to depth 2
    quick_inits = initial_configs('quick')
    deep = {i for i, c in enumerate(inits) if c in quick_inits} if tier != 'quick' else set(range(len(inits)))
    for d in range(depth):
        if d >= 2:
            for f in frontier:
                if f[0] not in deep:
                    shutil.rmtree(f[1], ignore_errors=True)
            frontier = [f for f in frontier if f[0] in deep]
        shards = [[f] for f in frontier]
        _G['seen_keys'] = set(seen)
        _G['last_level'] = (d == depth - 1)
        ctx = run_shards(_shard, shards, seed=seed, label='%s depth %d' % (PROP, d + 1))
        new = []
        for note in ctx.notes:
            if note.startswith('CHILDREN'):
                for init_idx, key, path, hist in json.loads(note[8:]):
                    k = (init_idx, key)
                    if path is None:
                        if k not in seen:
                            seen[k] = None       # counted as a state, not expanded (last level)
                        continue
                    if k in seen:
                        shutil.rmtree(path, ignore_errors=True)
                    else:
                        seen[k] = path
                        new.append((init_idx, path, hist))
        ctx.notes = [n for n in ctx.notes if not n.startswith('CHILDREN')]
        total.merge(ctx)
        new.sort(key=lambda x: (x[0], len(x[2]), repr(x[2])))
        frontier = new
        levels.append(len(new))
        if not frontier:
            break
    fixpoint = not frontier
    shutil.rmtree(store, ignore_errors=True)
    ev = total.counters['evaluations']
    return Result(
        total, level='model_checking',
        rule=('BFS from %d initial git configurations over %d nbdime config commands; every transition of every explored state is executed with real git and '
              'judged; states de-duplicated per initial configuration on (local config, global config, both attributes files); non-trivial = the command '
              'changed the state' % (len(inits), len(_G['events']))),
        evaluations=ev, distinct_nontrivial=total.counters['nontrivial'],
        states=len(seen), transitions=total.counters['transitions'], traces_validated=total.counters['transitions'], exhaustive=True,
        bounds={'tier': tier, 'depth': depth, 'initial_configurations': len(inits), 'initial_configurations_expanded_to_full_depth': len(deep), 'events': [ev_name(e) for e in _G['events']],
                'new_states_per_level': levels, 'fixpoint_reached_within_depth': fixpoint},
        assumptions=['git as installed; global scope isolated through HOME / XDG_CONFIG_HOME; --system scope not explored',
                     'web tool modules imported through the jupyter_server / jinja2 stubs (only their config sub-commands are executed)'],
    )


def replay(case, ctx):
    isolate.setup_env()
    if STUBS not in sys.path:
        sys.path.insert(0, STUBS)
    store = tempfile.mkdtemp(prefix='c18r-', dir=isolate.scratch_root())
    w = os.path.join(store, 'w')
    make_world(w, case['initial'])
    evs = {ev_name(e): e for e in events()}
    for name in case['history']:
        run_event(w, evs[name])
    pre = observe(w)
    ev = tuple(case['event'])
    rc, exc = run_event(w, ev)
    post = observe(w)
    check_transition(ctx, pre, ev, post, rc, exc, case)
    if ev[1] == 'enable':
        rc2, exc2 = run_event(w, ev)
        post2 = observe(w)
        if exc2 is not None or canon(post2) != canon(post):
            diffkeys = sorted(k for k in post if canon(post[k]) != canon(post2.get(k)))
            ctx.violation('%s|NOT-IDEMPOTENT|%s|%s' % (PROP, '%s-%s' % (ev[0], ev[1]) + ('-default' if ev[3] else ''), ','.join(diffkeys) or 'raises'), 'not idempotent', case)
    shutil.rmtree(store, ignore_errors=True)
