"""C04 - a merged notebook always validates against its declared notebook format.

Space : the executions of C03 that returned (same space and engine), plus the file written by
        `nbmerge --out` for a depth-1 slice.
Oracle: jsonschema Draft4 validation, discriminated by cell_type / output_type, of the JSON round
        trip of the merged notebook against nbformat's v4.<declared minor> schema.
"""
import io
import json
import os
import shutil
import sys
import tempfile

from .. import isolate, mergecore as M, universe_nb as U
from ..engine import Ctx, run_shards, chunked, HarnessError, time_limit
from ..findings import exc_fingerprint
from ..oracles.schemas import validate_notebook
from ..run import Result

PROP = 'C04'
_VALID = set()


def retyped(B, L, R):
    """Classifier: does either side change the cell_type of a base cell while keeping its id
    (or, without ids, its position and source)?"""
    def sig(nb):
        out = {}
        for i, c in enumerate(nb['cells']):
            out[c.get('id', (i, c['source']))] = c['cell_type']
        return out
    b = sig(B)
    for side in (L, R):
        s = sig(side)
        if any(k in s and s[k] != t for k, t in b.items()):
            return True
    return False


def classify_triple(B, L, R):
    """Classifier for fingerprints: 'upgrade|' when a side moved a pre-4.5 base to 4.5 (ids added) - the other side either still works in the id-less
    format or upgraded independently (and so gave the same cells other ids); 'retype|' when a side changes a cell's type in place; '' otherwise."""
    mb, ml, mr = B['nbformat_minor'], L['nbformat_minor'], R['nbformat_minor']
    if mb < 5 and (ml >= 5 or mr >= 5):
        return 'upgrade|'
    return 'retype|' if retyped(B, L, R) else ''


def check(ctx, B, L, R, cfg, ts, labels, out):
    ctx.count('evaluations')
    if labels[1] != labels[2]:
        ctx.count('nontrivial')
    if out.exc is not None:
        ctx.count('merge_raised(not judged here, see C03)')
        return
    if out.conflicted:
        ctx.count('conflicted')
    try:
        doc = M.json_roundtrip(out.merged)
    except (TypeError, ValueError) as e:
        ctx.violation('%s|NOT-JSON|%s' % (PROP, type(e).__name__), 'merged notebook is not JSON serialisable: %s' % e,
                      {'base': B, 'local': L, 'remote': R, 'config': list(cfg), 'toolset': ts, 'labels': list(labels)})
        return
    key = hash(M.canon(doc))
    if key in _VALID:
        ctx.count('validated_from_cache(identical merged notebook already validated in this worker)')
        return
    errs = validate_notebook(doc)
    if not errs:
        _VALID.add(key)
    ids = [c.get('id') for c in doc.get('cells', []) if isinstance(c, dict) and isinstance(c.get('id'), str)]
    if len(ids) != len(set(ids)):
        ctx.count('info:duplicate_cell_ids(not part of the schema; nbformat repairs them)')
    ctx.seen('declared_minor', str(doc.get('nbformat_minor')))
    cls = classify_triple(B, L, R) if errs else ''
    for path, kw, msg in errs:
        ctx.violation('%s|SCHEMA|%s%s|%s|%s' % (PROP, cls, path, kw, msg),
                      'merged notebook invalid for its declared minor %r: %s %s %s' % (doc.get('nbformat_minor'), path, kw, msg),
                      {'base': B, 'local': L, 'remote': R, 'config': list(cfg), 'toolset': ts, 'labels': list(labels)})


def check_file(ctx, B, L, R, tmp, labels):
    """nbmerge b l r --out m.ipynb : the written file parses and validates."""
    from nbdime import nbmergeapp
    isolate.reset_globals()
    ctx.count('file_merges')
    case = {'base': B, 'local': L, 'remote': R, 'labels': list(labels), 'interface': 'nbmerge --out'}
    paths = {}
    for name, nb in (('b', B), ('l', L), ('r', R)):
        paths[name] = os.path.join(tmp, name + '.ipynb')
        with open(paths[name], 'w', encoding='utf8') as f:
            json.dump(nb, f)
    outp = os.path.join(tmp, 'm.ipynb')
    if os.path.exists(outp):
        os.unlink(outp)
    so, se = sys.stdout, sys.stderr
    sys.stdout, sys.stderr = io.StringIO(), io.StringIO()
    try:
        with time_limit(30):
            nbmergeapp.main([paths['b'], paths['l'], paths['r'], '--out', outp])
    except SystemExit:
        pass
    except Exception:
        ctx.count('file_merge_raised(not judged here, see C03/C08)')
        return
    finally:
        sys.stdout, sys.stderr = so, se
    try:
        with open(outp, encoding='utf8') as f:
            doc = json.load(f)
    except Exception as e:
        ctx.violation('%s|FILE|unreadable|%s' % (PROP, type(e).__name__), 'nbmerge --out did not leave readable JSON', case)
        return
    errs = validate_notebook(doc)
    cls = classify_triple(B, L, R) if errs else ''
    for path, kw, msg in errs:
        ctx.violation('%s|FILE-SCHEMA|%s%s|%s|%s' % (PROP, cls, path, kw, msg), 'file written by nbmerge --out is invalid: %s %s %s' % (path, kw, msg), case)


def _shard(sh, ctx):
    if sh[0] == 'files':
        _, sname, idxs = sh
        seed, d1 = M.depth1(sname)
        tmp = tempfile.mkdtemp(prefix='c04-', dir=isolate.scratch_root())
        try:
            for i in idxs:
                for j in range(0, len(d1), 5):
                    check_file(ctx, seed, d1[i][2], d1[(i + j) % len(d1)][2], tmp, (sname, d1[i][0], d1[(i + j) % len(d1)][0]))
        finally:
            shutil.rmtree(tmp, ignore_errors=True)
        return
    k = 0
    for B, L, R, cfg, ts, labels in M.shard_triples(sh):
        out = M.run_merge(B, L, R, cfg, ts)
        check(ctx, B, L, R, cfg, ts, labels, out)
        k += 1
        if k % 1013 == 1:
            ctx.sample({'seed': labels[0], 'local_edit': labels[1], 'remote_edit': labels[2], 'config': M.cfg_name(cfg),
                        'conflicted': out.conflicted}, rank=labels + (M.cfg_name(cfg),))


def controls():
    bad = U.seeds()['S44']
    bad = json.loads(json.dumps(bad))
    bad['cells'][1]['id'] = 'x'
    if not validate_notebook(bad):
        raise HarnessError('C04 control: id in a 4.4 markdown cell not rejected')
    bad2 = json.loads(json.dumps(U.seeds()['S45']))
    bad2['cells'][1]['outputs'] = []
    if not any('outputs' in m for _, _, m in validate_notebook(bad2)):
        raise HarnessError('C04 control: outputs on a markdown cell not rejected')
    bad3 = json.loads(json.dumps(U.seeds()['S45']))
    bad3['cells'][0]['id'] = {'local_id': 'a', 'remote_id': 'b'}
    if not validate_notebook(bad3):
        raise HarnessError('C04 control: dict-valued id not rejected')
    if validate_notebook(U.seeds()['S45']):
        raise HarnessError('C04 control: valid seed rejected')


def run(tier, seed):
    isolate.setup_env()
    isolate.install_id_counter()
    shards, info = M.space(tier)
    for sname in (('S45', 'S44') if tier == 'quick' else ('S45', 'S44', 'Sjson', 'Ssim', 'Sv1')):
        _, d1 = M.depth1(sname)
        step = 3 if tier == 'quick' else 1
        for ch in chunked(range(0, len(d1), step), 16):
            shards.append(('files', sname, ch))
    ctx = run_shards(_shard, shards, seed=seed, label=PROP)
    ev = ctx.counters['evaluations'] + ctx.counters['file_merges']
    nstates = sum(1 + len(M.depth1(s)[1]) for s in set(sh[1] for sh in shards))
    return Result(
        ctx, level='exploration',
        rule=('same triples x configurations as C03 (every returned merge is validated), plus nbmerge --out on a depth-1 slice; '
              'non-trivial = the two sides made different edits'),
        evaluations=ev, distinct_nontrivial=ctx.counters['nontrivial'],
        states=nstates, transitions=ev, traces_validated=ev, exhaustive=True,
        bounds=dict(info, tier=tier),
        assumptions=['nbformat\'s shipped v4.<minor> schema files are the definition of validity; cells/outputs are validated against the '
                     'definition selected by their cell_type/output_type',
                     'as C03: one CLI combination per distinct strategy table in the quick tier'],
    )


def replay(case, ctx):
    isolate.setup_env()
    isolate.install_id_counter()
    if case.get('interface'):
        tmp = tempfile.mkdtemp(prefix='c04-', dir=isolate.scratch_root())
        check_file(ctx, case['base'], case['local'], case['remote'], tmp, tuple(case.get('labels', ('?', 'l', 'r'))))
        return
    cfg = tuple(case['config'])
    out = M.run_merge(case['base'], case['local'], case['remote'], cfg, case.get('toolset', 'git'))
    check(ctx, case['base'], case['local'], case['remote'], cfg, case.get('toolset', 'git'), tuple(case.get('labels', ('?', 'l', 'r'))), out)
