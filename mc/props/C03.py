"""C03 - three-way merge always completes for valid notebooks under every strategy.

Space : mergecore.space(tier): (a) compact conflicting alphabet x every CLI strategy combination
        (quick: one representative per distinct strategy table that nbdime derives from the 282
        namespaces, thorough: all 282 x 3 external-tool sets); (b) full depth-1 x depth-1 alphabet x the
        path-distinct configurations; thorough adds non-initial bases.
Oracle: merge_notebooks(base, local, remote, args) returns (notebook, list) within the time limit.
"""
from .. import isolate, mergecore as M, universe_nb as U
from ..engine import Ctx, run_shards, ExecTimeout, HarnessError
from ..findings import exc_fingerprint
from ..run import Result

PROP = 'C03'


def check(ctx, B, L, R, cfg, ts, labels, out):
    ctx.count('evaluations')
    if labels[1] != labels[2]:
        ctx.count('nontrivial')
    if out.exc is not None:
        e = out.exc
        case = {'base': B, 'local': L, 'remote': R, 'config': list(cfg), 'toolset': ts, 'labels': list(labels)}
        if isinstance(e, ExecTimeout):
            ctx.violation('%s|TIMEOUT' % PROP, 'merge did not terminate within the limit', case)
        else:
            fp = exc_fingerprint(PROP, e)
            if "'nbdime-conflicts'" in str(e):
                fp += '|key:nbdime-conflicts'       # classifier: the failing key is the record of an earlier merge's conflicts
            elif "'LOCAL_" in str(e) or "'REMOTE_" in str(e):
                fp += '|key:leftover-attachment'    # classifier: the failing key is a LOCAL_/REMOTE_ attachment left by an earlier merge
            ctx.violation(fp, 'merge_notebooks raised %s: %s' % (type(e).__name__, str(e)[:200]), case)
        return
    ctx.count('returned')
    if out.conflicted:
        ctx.count('conflicted')
    if not (isinstance(out.decisions, list) and isinstance(out.merged, dict)):
        ctx.violation('%s|RETURN-SHAPE' % PROP, 'merge_notebooks did not return (notebook, list)', {'labels': list(labels)})


def _shard(sh, ctx):
    M.install_observers()
    k = 0
    for B, L, R, cfg, ts, labels in M.shard_triples(sh):
        out = M.run_merge(B, L, R, cfg, ts)
        check(ctx, B, L, R, cfg, ts, labels, out)
        ctx.seen('configs', M.cfg_name(cfg))
        k += 1
        if k % 1013 == 1:
            ctx.sample({'seed': labels[0], 'local_edit': labels[1], 'remote_edit': labels[2], 'config': M.cfg_name(cfg), 'toolset': ts,
                        'conflicted': out.conflicted, 'raised': type(out.exc).__name__ if out.exc else None}, rank=labels + (M.cfg_name(cfg),))
    M.drain_observations(ctx)


def controls():
    isolate.setup_env()
    isolate.install_id_counter()
    import nbdime.merging.notebooks as mn
    S = U.seeds()
    seed, d1 = M.depth1('S45')
    c = Ctx()
    orig = mn.apply_decisions
    try:
        def boom(*a, **k):
            raise IndexError('control')
        mn.apply_decisions = boom
        out = M.run_merge(seed, d1[3][2], d1[40][2], M.DEFAULT)
        check(c, seed, d1[3][2], d1[40][2], M.DEFAULT, 'git', ('S45', 'x', 'y'), out)
    finally:
        mn.apply_decisions = orig
    if not any('IndexError' in f for f in c.viol):
        raise HarnessError('C03 control: injected exception not reported')


def run(tier, seed):
    isolate.setup_env()
    isolate.install_id_counter()
    shards, info = M.space(tier)
    ctx = run_shards(_shard, shards, seed=seed, label=PROP)
    ev = ctx.counters['evaluations']
    nstates = sum(1 + len(M.depth1(s)[1]) for s in set(sh[1] for sh in shards))
    return Result(
        ctx, level='exploration',
        rule=('every triple (seed, l, r) with l, r distinct depth-1 states of the seed (states de-duplicated by canonical JSON) under every '
              'listed configuration and tool set; a case is non-trivial when the two sides made different edits'),
        evaluations=ev, distinct_nontrivial=ctx.counters['nontrivial'],
        states=nstates, transitions=ev, traces_validated=ev, exhaustive=True,
        bounds=dict(info, tier=tier),
        assumptions=['merge_notebooks depends on its args only through notebook_merge_strategies(args) and log_level '
                     '(quick tier runs one CLI combination per distinct strategy table; thorough runs all 282)',
                     'notebooks reached by one edit per side from the seeds of mc/universe_nb.py (thorough: also depth-1 bases)'],
    )


def replay(case, ctx):
    isolate.setup_env()
    isolate.install_id_counter()
    cfg = tuple(case['config'])
    out = M.run_merge(case['base'], case['local'], case['remote'], cfg, case.get('toolset', 'git'))
    check(ctx, case['base'], case['local'], case['remote'], cfg, case.get('toolset', 'git'), tuple(case.get('labels', ('?', 'l', 'r'))), out)
