"""C09 - merge decisions losslessly describe the merge and follow the published schema.

Space : depth-1 x depth-1 triples x {mergetool and the path-distinct CLI configurations}; the
        compact conflicting alphabet x every distinct strategy table; seeds whose three sides declare
        different format minors.
Oracle: (a) independent ref_apply(base, json(decisions)) == merged notebook;
        (b) under 'mergetool': choosing local (remote) for every decision rebuilds local (remote)
            exactly - through ref_apply and through nbdime's own build_diffs + patch;
        (c) the list is plain JSON and validates against merge_format.schema.json;
        (d) no decision's path is a proper prefix of a later decision's path, equal paths contiguous.
"""
import json

from .. import isolate, mergecore as M, universe_nb as U
from ..engine import Ctx, canon, run_shards, HarnessError
from ..findings import exc_fingerprint, normalise_message
from ..oracles.refapply import ref_apply, RefApplyError
from ..oracles.refpatch import RefPatchError
from ..oracles.schemas import validate_decisions_schema
from ..run import Result

PROP = 'C09'


def ordering_problems(decs):
    probs = []
    paths = [tuple(d.get('common_path') or ()) for d in decs]
    closed = set()
    prev = None
    for i, p in enumerate(paths):
        if p != prev:
            if p in closed:
                probs.append('equal-paths-not-contiguous')
            if prev is not None:
                closed.add(prev)
            prev = p
    for i in range(len(paths)):
        for j in range(i + 1, len(paths)):
            pi, pj = paths[i], paths[j]
            if len(pi) < len(pj) and pj[:len(pi)] == pi:
                probs.append('enclosing-path-before-inner')
                return probs
    return probs


def check(ctx, B, L, R, cfg, ts, labels, out):
    ctx.count('evaluations')
    if labels[1] != labels[2]:
        ctx.count('nontrivial')
    if out.exc is not None:
        ctx.count('merge_raised(judged by C03)')
        return
    case = {'base': B, 'local': L, 'remote': R, 'config': list(cfg), 'toolset': ts, 'labels': list(labels)}
    name = M.cfg_name(cfg).split('/')[0]
    # (c) plain JSON + schema
    try:
        decs = json.loads(json.dumps(out.decisions))
    except (TypeError, ValueError) as e:
        ctx.violation('%s|JSON|%s' % (PROP, type(e).__name__), 'decision list is not JSON serialisable: %s' % e, case)
        return
    for d in decs:
        ctx.seen('actions', str(d.get('action')))
    for path, kw, msg in validate_decisions_schema(decs):
        acts = ''
        if kw == 'enum':
            bad = sorted({str(d.get('action')) for d in decs} - SCHEMA_ACTIONS)
            acts = '|action:' + ','.join(bad)
        ctx.violation('%s|SCHEMA|%s|%s|%s%s' % (PROP, path, kw, msg, acts), 'decision list violates merge_format.schema.json: %s %s %s' % (path, kw, msg), case)
    # (d) ordering
    for p in ordering_problems(decs):
        ctx.violation('%s|ORDER|%s' % (PROP, p), 'decision ordering: %s' % p, case)
    # (a) apply == merged
    merged = U.plain(out.merged)
    try:
        ra = ref_apply(B, decs)
        if canon(ra) != canon(merged):
            ctx.violation('%s|APPLY|differs|%s' % (PROP, name), 'independent application of the decisions differs from the merged notebook', case)
    except (RefApplyError, RefPatchError, KeyError, IndexError, TypeError) as e:
        ctx.violation('%s|APPLY|error|%s|%s' % (PROP, type(e).__name__, normalise_message(e)), 'decisions cannot be applied by the independent implementation: %s' % e, case)
    # (b) lossless under mergetool
    if cfg[0] == 'mergetool':
        ctx.count('lossless_checked')
        for side, want in (('local', L), ('remote', R)):
            try:
                got = ref_apply(B, decs, force=side)
                if canon(got) != canon(want):
                    from .C02 import classify
                    ctx.violation('%s|LOSSLESS|%s|%s' % (PROP, side, classify(got, want)), 'choosing %s for every decision does not rebuild the %s notebook' % (side, side), case)
            except (RefApplyError, RefPatchError, KeyError, IndexError, TypeError) as e:
                ctx.violation('%s|LOSSLESS|%s|error|%s|%s' % (PROP, side, type(e).__name__, normalise_message(e)),
                              'choosing %s for every decision cannot be applied: %s' % (side, e), case)
        # nbdime's own helper build_diffs (used by the legacy autoresolve module only) is exercised for information; the
        # property speaks about the decision list, which the independent route above already decides
        from nbdime.merging.decisions import build_diffs
        import nbdime
        for side, want in (('local', L), ('remote', R)):
            try:
                b = U.to_node(B)
                d = build_diffs(b, out.decisions, side)
                got = b if d is None else nbdime.patch(b, d)
                ctx.count('info:build_diffs_%s' % ('agrees' if canon(U.plain(got)) == canon(want) else 'differs'))
            except Exception:
                ctx.count('info:build_diffs_raises')


SCHEMA_ACTIONS = {'local', 'remote', 'base', 'clear', 'clear_all', 'remove', 'either', 'local_then_remote', 'remote_then_local', 'custom'}


def _shard(sh, ctx):
    k = 0
    for B, L, R, cfg, ts, labels in M.shard_triples(sh):
        out = M.run_merge(B, L, R, cfg, ts)
        check(ctx, B, L, R, cfg, ts, labels, out)
        k += 1
        if k % 499 == 1 and out.decisions is not None:
            ctx.sample({'seed': labels[0], 'local_edit': labels[1], 'remote_edit': labels[2], 'config': M.cfg_name(cfg),
                        'decisions': [{'path': list(d.common_path), 'action': d.action, 'conflict': d.conflict} for d in out.decisions][:8]},
                       rank=labels + (M.cfg_name(cfg),))


def space(tier):
    shards, info = M.space(tier, parts=('a', 'runs') if tier == 'quick' else ('a', 'runs', 'nonroot'))
    # (b) part with mergetool first
    if tier == 'quick':
        plan = [('S45', (M.MERGETOOL, M.DEFAULT)), ('Sv2', (M.MERGETOOL, M.DEFAULT, ('use-local', None, None, True))), ('Sjson', (M.MERGETOOL,)),
                ('Sempty', (M.MERGETOOL, M.DEFAULT))]
    else:
        plan = [(s, tuple(M.KEY_CONFIGS)) for s in ('S45', 'S44', 'Ssim', 'Sjson', 'Sv0', 'Sv1', 'Sv2', 'Sv3', 'Sempty')]
    for sname, cfgs in plan:
        seed, d1 = M.depth1(sname)
        idx = tuple(range(len(d1)))
        info['b:%s' % sname] = '%d x %d edits x %d configs' % (len(d1), len(d1), len(cfgs))
        for i in idx:
            shards.append(('b', sname, 'git', cfgs, None, (i,), idx))
    return shards, info


def controls():
    if ordering_problems([{'common_path': ['cells']}, {'common_path': ['cells', 0]}]) != ['enclosing-path-before-inner']:
        raise HarnessError('C09 control: ordering')
    if 'equal-paths-not-contiguous' not in ordering_problems([{'common_path': ['a']}, {'common_path': ['b']}, {'common_path': ['a']}]):
        raise HarnessError('C09 control: contiguity')
    if ordering_problems([{'common_path': ['cells', 1]}, {'common_path': ['cells', 0]}, {'common_path': ['cells']}, {'common_path': []}]):
        raise HarnessError('C09 control: good order rejected')
    bad = [{'common_path': [], 'action': 'nonsense', 'conflict': False, 'local_diff': [], 'remote_diff': []}]
    if not validate_decisions_schema(bad):
        raise HarnessError('C09 control: unknown action accepted by the schema validator')
    base = {'a': [1, 2, 3], 's': 'x\ny\n'}
    decs = [{'common_path': ['s', 1], 'action': 'local', 'conflict': False, 'local_diff': [{'op': 'addrange', 'key': 1, 'valuelist': '!'}], 'remote_diff': None},
            {'common_path': ['a'], 'action': 'local_then_remote', 'conflict': False,
             'local_diff': [{'op': 'addrange', 'key': 3, 'valuelist': [4]}], 'remote_diff': [{'op': 'addrange', 'key': 3, 'valuelist': [5]}]}]
    if ref_apply(base, decs) != {'a': [1, 2, 3, 4, 5], 's': 'x\ny!\n'}:
        raise HarnessError('C09 control: ref_apply')


def run(tier, seed):
    isolate.setup_env()
    isolate.install_id_counter()
    shards, info = space(tier)
    ctx = run_shards(_shard, shards, seed=seed, label=PROP)
    ev = ctx.counters['evaluations']
    nstates = sum(1 + len(M.depth1(s)[1]) for s in set(sh[1] for sh in shards))
    return Result(
        ctx, level='exploration',
        rule=('triples (seed, l, r) of depth-1 states x configurations as listed in bounds; every returned decision list is checked for '
              'apply==merged, schema, JSON, ordering, and (mergetool) lossless reconstruction of both sides; non-trivial = sides differ'),
        evaluations=ev, distinct_nontrivial=ctx.counters['nontrivial'],
        states=nstates, transitions=ev, traces_validated=ev, exhaustive=True,
        bounds=dict(info, tier=tier),
        assumptions=['mc/oracles/refapply.py is the reading of the published action vocabulary and grouping rule',
                     'schema = nbdime/merge_format.schema.json with diff_format.schema.json resolved from the working tree'],
    )


def replay(case, ctx):
    isolate.setup_env()
    isolate.install_id_counter()
    cfg = tuple(case['config'])
    out = M.run_merge(case['base'], case['local'], case['remote'], cfg, case.get('toolset', 'git'))
    check(ctx, case['base'], case['local'], case['remote'], cfg, case.get('toolset', 'git'), tuple(case.get('labels', ('?', 'l', 'r'))), out)
