"""C01 - notebook diff followed by patch reproduces the target exactly (library and file interface).

Space : (s, x) for x in BFS(s, d); (x, y) for x, y in BFS(s, 1); (x, y) across different seeds.
Oracle: independent ref_patch(A, d) == B; patch_notebook(A, d) == B; d == [] <=> canon(A)==canon(B);
        nbdiff --out / nbpatch -o round trip through real files reproduces B.
"""
import io
import json
import os
import shutil
import sys
import tempfile

from .. import universe_nb as U
from .. import isolate
from ..engine import Ctx, canon, run_shards, chunked, time_limit, HarnessError
from ..findings import exc_fingerprint, normalise_message
from ..oracles.refpatch import ref_patch, RefPatchError
from ..run import Result
from .C02 import classify, walk_ops

PROP = 'C01'


def check_pair(A, B, ctx, label=''):
    import nbdime
    isolate.reset_globals()
    ctx.count('evaluations')
    ca, cb = canon(A), canon(B)
    if ca != cb:
        ctx.count('nontrivial')
    case = {'A': A, 'B': B, 'label': label}
    a, b = U.to_node(A), U.to_node(B)
    try:
        with time_limit(60):
            d = nbdime.diff_notebooks(a, b)
    except Exception as e:
        ctx.violation(exc_fingerprint(PROP, e, 'DIFF-EXC'), 'diff_notebooks raised %s: %s' % (type(e).__name__, e), case)
        return None
    walk_ops(d, 0, ctx)
    if not d:
        ctx.count('empty_diffs')
        if ca != cb:
            ctx.violation('%s|EMPTYDIFF|%s' % (PROP, classify(A, B)), 'empty diff for different notebooks', case)
        return d
    if ca == cb:
        ctx.violation('%s|NONEMPTY-DIFF-OF-EQUAL' % PROP, 'non-empty diff for identical notebooks', case)
    try:
        with time_limit(60):
            p = nbdime.patch_notebook(a, d)
        if canon(p) != cb:
            ctx.violation('%s|ROUNDTRIP|%s' % (PROP, classify(U.plain(p), B)), 'patch_notebook(A, diff) != B', case)
    except Exception as e:
        ctx.violation(exc_fingerprint(PROP, e, 'PATCH-EXC'), 'patch_notebook raised %s: %s' % (type(e).__name__, e), case)
    try:
        rp = ref_patch(A, json.loads(json.dumps(d)))
        if canon(rp) != cb:
            ctx.violation('%s|REFPATCH|%s' % (PROP, classify(rp, B)), 'independent patcher on diff(A,B) != B', case)
    except RefPatchError as e:
        ctx.violation('%s|REFPATCH|error|%s' % (PROP, normalise_message(e)), 'independent patcher rejects the diff: %s' % e, case)
    return d


def check_files(A, B, ctx, tmpdir, label=''):
    """nbdiff A B --out d.json ; nbpatch A d.json -o out.ipynb, in-process, real files."""
    import nbformat
    from nbdime import nbdiffapp, nbpatchapp
    isolate.reset_globals()
    ctx.count('file_roundtrips')
    case = {'A': A, 'B': B, 'label': label, 'interface': 'files'}
    fa, fb = os.path.join(tmpdir, 'a.ipynb'), os.path.join(tmpdir, 'b.ipynb')
    fd, fo = os.path.join(tmpdir, 'd.json'), os.path.join(tmpdir, 'o.ipynb')
    for p in (fd, fo):
        if os.path.exists(p):
            os.unlink(p)
    with open(fa, 'w', encoding='utf8') as f:
        json.dump(A, f)
    with open(fb, 'w', encoding='utf8') as f:
        json.dump(B, f)
    so, se = sys.stdout, sys.stderr
    sys.stdout, sys.stderr = io.StringIO(), io.StringIO()
    try:
        try:
            with time_limit(60):
                rc = nbdiffapp.main([fa, fb, '--out', fd])
            if rc not in (0, None):
                ctx.violation('%s|FILES|nbdiff-status' % PROP, 'nbdiff --out returned %r' % (rc,), case)
                return
            with open(fd, encoding='utf8') as f:
                json.load(f)
            with time_limit(60):
                rc = nbpatchapp.main([fa, fd, '-o', fo])
            if rc not in (0, None):
                ctx.violation('%s|FILES|nbpatch-status' % PROP, 'nbpatch -o returned %r' % (rc,), case)
                return
        except SystemExit as e:
            ctx.violation('%s|FILES|SystemExit' % PROP, 'file interface exited with %r' % (e.code,), case)
            return
        except Exception as e:
            ctx.violation(exc_fingerprint(PROP, e, 'FILES-EXC'), 'file interface raised %s: %s' % (type(e).__name__, e), case)
            return
    finally:
        sys.stdout, sys.stderr = so, se
    got = nbformat.read(fo, as_version=4)
    want = nbformat.read(fb, as_version=4)
    if canon(got) != canon(want):
        ctx.violation('%s|FILES|%s' % (PROP, classify(U.plain(got), U.plain(want))),
                      'nbdiff --out + nbpatch -o does not rebuild the target file', case)


_SP = {}


def _shard(sh, ctx):
    kind, name, idxs = sh
    sp = _SP[name]
    if kind == 'seed-to':
        seed = sp['seed']
        for i in idxs:
            x, path = sp['targets'][i]
            check_pair(seed, x, ctx, '%s->%s' % (name, '+'.join(path)))
            if i % 97 == 0:
                ctx.sample({'from': name, 'edits': list(path)}, rank=(name, i))
            if len(path) == 1:
                check_pair(x, seed, ctx, '%s<-%s' % (name, path[0]))
    elif kind == 'pairs':
        d1 = sp['d1']
        for i in idxs:
            for j in range(len(d1)):
                if i != j:
                    check_pair(d1[i][1], d1[j][1], ctx, '%s:%s|%s' % (name, d1[i][0], d1[j][0]))
    elif kind == 'files':
        d1 = sp['d1']
        tmp = tempfile.mkdtemp(prefix='c01-', dir=isolate.scratch_root())
        try:
            for i in idxs:
                check_files(sp['seed'], d1[i][1], ctx, tmp, '%s->%s' % (name, d1[i][0]))
                if i % 3 == 0:
                    check_files(d1[i][1], d1[(i * 7 + 3) % len(d1)][1], ctx, tmp, 'files-pair')
        finally:
            shutil.rmtree(tmp, ignore_errors=True)
    elif kind == 'cross':
        names = sp['names']
        for i in idxs:
            for j in range(len(names)):
                if i != j:
                    check_pair(sp['all'][names[i]], sp['all'][names[j]], ctx, 'cross:%s|%s' % (names[i], names[j]))


def controls():
    import nbdime
    c = Ctx()
    S = U.seeds()
    A = S['S45']
    B = U.depth1(A)[40][2]
    orig = nbdime.patch_notebook
    try:
        nbdime.patch_notebook = lambda a, d: a
        check_pair(A, B, c)
    finally:
        nbdime.patch_notebook = orig
    if not any(f.startswith('C01|ROUNDTRIP') for f in c.viol):
        raise HarnessError('C01 control: identity patch not flagged')
    c = Ctx()
    orig = nbdime.diff_notebooks
    try:
        nbdime.diff_notebooks = lambda a, b: []
        check_pair(A, B, c)
    finally:
        nbdime.diff_notebooks = orig
    if not any(f.startswith('C01|EMPTYDIFF') for f in c.viol):
        raise HarnessError('C01 control: empty diff not flagged')


def build_space(tier):
    S = U.seeds()
    depth = {'quick': 1, 'thorough': 2}[tier]
    deep = ('S45', 'S44', 'Ssim', 'Sjson')
    space = {}
    trans = 0
    nstates = 0
    for name, seed in S.items():
        d = depth if name in deep else 1
        levels, t = U.explore(seed, d)
        trans += t
        targets = []
        for lev in levels[1:]:
            for nb, path in lev:
                targets.append((nb, tuple(l for l, _ in path)))
        d1 = [(path[0][0], nb) for nb, path in levels[1]]
        space[name] = {'seed': seed, 'targets': targets, 'd1': d1}
        nstates += 1 + len(targets)
    # threshold family: payload sizes around the differ's size cut-offs (shortlen 10, base64 min_len 64, stream 1000, text mimedata 10000)
    for n in U.threshold_sizes():
        if tier == 'quick' and n in (63, 65, 999):
            continue
        tseed, td1 = U.threshold_family(n)
        space['Sthr%05d' % n] = {'seed': tseed, 'targets': [(nb, (l,)) for l, t, nb in td1], 'd1': [(l, nb) for l, t, nb in td1], 'threshold': n}
        nstates += 1 + len(td1)
        trans += len(td1)
    space['__cross__'] = {'names': sorted(S), 'all': S}
    return space, nstates, trans


def run(tier, seed):
    isolate.setup_env()
    isolate.install_id_counter()
    space, nstates, trans = build_space(tier)
    _SP.clear()
    _SP.update(space)
    shards = []
    for name, sp in sorted(space.items()):
        if name == '__cross__':
            shards.append(('cross', name, list(range(len(sp['names'])))))
            continue
        if sp.get('threshold'):
            big = sp['threshold'] >= 9999
            for ch in chunked(range(len(sp['targets'])), 64 if big else 4):
                shards.append(('seed-to', name, ch))
            if sp['threshold'] in (10, 64, 1000):
                for ch in chunked(range(len(sp['d1'])), 16):
                    shards.append(('pairs', name, ch))
            continue
        for ch in chunked(range(len(sp['targets'])), max(1, len(sp['targets']) // 150)):
            shards.append(('seed-to', name, ch))
        pair_seeds = ('S45', 'S44', 'Ssim', 'Sjson') if tier == 'thorough' else ('S45', 'Sjson', 'Sv2')
        if name in pair_seeds:
            for ch in chunked(range(len(sp['d1'])), max(1, len(sp['d1']) // 6)):
                shards.append(('pairs', name, ch))
        if name in ('S45', 'S44', 'Sjson', 'Ssim') or tier == 'thorough':
            idx = list(range(len(sp['d1'])))
            if tier == 'quick':
                idx = idx[::2]
            for ch in chunked(idx, 8):
                shards.append(('files', name, ch))
    ctx = run_shards(_shard, shards, seed=seed, label=PROP)
    ev = ctx.counters['evaluations'] + ctx.counters['file_roundtrips']
    return Result(
        ctx, level='exploration',
        rule=('pairs (seed, x) and (x, seed) for every state x of BFS(seed, depth) over the edit alphabet, all ordered pairs of '
              'distinct depth-1 states, all ordered pairs of distinct seeds; states are de-duplicated by canonical JSON so pairs are '
              'distinct by construction; non-trivial = the two notebooks differ'),
        evaluations=ev, distinct_nontrivial=ctx.counters['nontrivial'],
        states=nstates, transitions=trans, traces_validated=ev, exhaustive=True,
        bounds={'tier': tier, 'depth': {'quick': 1, 'thorough': 2}[tier],
                'states_per_seed': {k: 1 + len(v['targets']) for k, v in space.items() if k != '__cross__'}},
        assumptions=['edit alphabet and seeds of mc/universe_nb.py bound the notebooks reached',
                     'reference patcher mc/oracles/refpatch.py encodes docs/source/diffing.rst'],
    )


def replay(case, ctx):
    isolate.setup_env()
    isolate.install_id_counter()
    if case.get('interface') == 'files':
        tmp = tempfile.mkdtemp(prefix='c01-', dir=isolate.scratch_root())
        check_files(case['A'], case['B'], ctx, tmp, case.get('label', ''))
    else:
        check_pair(case['A'], case['B'], ctx, case.get('label', ''))
