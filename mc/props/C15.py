"""C15 - browser-side patch and decision application agree with the Python side.

Differential enumeration of two implementations on generated programs.

Programs: every (base, diff) produced by the Python differ over the generic families (incl. strings containing each
          Unicode line separator str.splitlines recognises) and the notebook depth-1 pairs, and every (base,
          decisions) produced by the Python merger under the web tool's 'mergetool' strategy (incl. format-minor
          conflicts).  Each program is serialised as one JSON line and run by a long-lived node process that
          imports `patch`, `MergeDecision` and `applyDecisions` directly from packages/nbdime/src/**/*.ts of the
          working tree (node >= 22.15 with type stripping, loader hooks in mc/ts/hooks.mjs).
Oracle  : the TypeScript result equals the Python result (numbers by value: JavaScript has one number type) and
          the TypeScript side does not throw where Python succeeds.
"""
import json
import os
import subprocess
import sys

from .. import isolate, mergecore as M, universe_nb as U, universe_json as UJ
from ..engine import Ctx, canon, run_shards, chunked, time_limit, HarnessError
from ..findings import normalise_message
from ..run import Result

PROP = 'C15'
HERE = os.path.dirname(os.path.dirname(os.path.abspath(__file__)))


def find_node():
    cands = []
    orig = os.environ.get('VERIF_ORIG_PATH', os.environ.get('PATH', ''))
    for d in orig.split(os.pathsep):
        cands.append(os.path.join(d, 'node'))
    base = os.path.expanduser('/root/.nvm/versions/node')
    if os.path.isdir(base):
        for v in sorted(os.listdir(base), reverse=True):
            cands.append(os.path.join(base, v, 'bin', 'node'))
    for c in cands:
        if os.path.isfile(c) and os.access(c, os.X_OK):
            try:
                v = subprocess.run([c, '-p', 'process.versions.node'], stdout=subprocess.PIPE, stderr=subprocess.PIPE, timeout=20).stdout.decode().strip()
                maj, mnr = (int(x) for x in v.split('.')[:2])
                if (maj, mnr) >= (22, 15):
                    return c
            except Exception:
                continue
    return None


def run_node(node, programs):
    """programs: list of dicts with id.  Returns {id: result dict}."""
    data = ''.join(json.dumps(p, ensure_ascii=True) + '\n' for p in programs).encode('ascii')
    env = dict(os.environ)
    env['PATH'] = env.get('VERIF_ORIG_PATH', env.get('PATH', ''))
    p = subprocess.run([node, '--experimental-transform-types', '--no-warnings', '--import', os.path.join(HERE, 'ts', 'hooks.mjs'), os.path.join(HERE, 'ts', 'runner.mjs')],
                       input=data, stdout=subprocess.PIPE, stderr=subprocess.PIPE, env=env)
    if p.returncode != 0:
        raise HarnessError('node runner failed (%s): %s' % (p.returncode, p.stderr.decode('utf8', 'replace')[-2000:]))
    out = {}
    for line in p.stdout.split(b'\n'):      # "\n" only: JSON.stringify leaves U+2028/U+2029 raw
        if line:
            r = json.loads(line.decode('utf8'))
            out[r['id']] = r
    return out


def numval(x):
    """Compare numbers by value: integral floats become ints (JSON.stringify(1.0) is '1')."""
    if isinstance(x, bool):
        return x
    if isinstance(x, float) and x == int(x):
        return int(x)
    if isinstance(x, dict):
        return {k: numval(v) for k, v in x.items()}
    if isinstance(x, list):
        return [numval(v) for v in x]
    return x


def strip_source(x):
    if isinstance(x, dict):
        return {k: strip_source(v) for k, v in x.items() if k != 'source' or not isinstance(v, dict) or 'decision' not in v}
    if isinstance(x, list):
        return [strip_source(v) for v in x]
    return x


PY_ONLY_SEPS = ('\x0b', '\x0c', '\x1c', '\x1d', '\x1e', '\x85', '\u2028', '\u2029')


def uses_python_only_separator(x):
    """Classifier: does the document contain a line separator that str.splitlines honours but the TypeScript
    splitLines (\\r\\n|\\r|\\n) does not?"""
    s = json.dumps(x, ensure_ascii=False)
    return any(c in s for c in PY_ONLY_SEPS) or any(esc in s for esc in ('\\u000b', '\\f', '\\u001c', '\\u001d', '\\u001e', '\\u0085'))


def judge(ctx, prog, py_result, ts, case):
    ctx.count('evaluations')
    ctx.count('nontrivial')
    cls = 'python-only-line-separator' if uses_python_only_separator([prog.get('base'), prog.get('diff'), prog.get('decisions')]) else 'plain'
    if not ts['ok']:
        msg = normalise_message(ts['error'], 80)
        actions = ''
        if prog['kind'] == 'decisions' and 'Invalid merge decision action' in ts['error']:
            actions = '|action:' + ts['error'].rsplit(':', 1)[-1].strip()
            msg = 'Invalid merge decision action'
        ctx.violation('%s|TS-THROWS|%s|%s|%s%s' % (PROP, prog['kind'], cls, msg, actions), 'TypeScript %s throws where Python succeeds: %s' % (prog['kind'], ts['error']), case)
        return
    if canon(numval(ts['result'])) != canon(numval(py_result)):
        ctx.violation('%s|DISAGREE|%s|%s' % (PROP, prog['kind'], cls), 'TypeScript and Python %s results differ' % prog['kind'], dict(case, ts=ts['result'], py=py_result))


_G = {}


def _shard(sh, ctx):
    import nbdime
    from nbdime.merging.decisions import apply_decisions
    kind = sh[0]
    progs, expect, cases = [], {}, {}
    n = 0

    def add(prog, py, case):
        nonlocal n
        n += 1
        prog['id'] = n
        progs.append(prog)
        expect[n] = py
        cases[n] = case
    if kind == 'generic':
        _, name, idxs = sh
        docs = _G['fam'][name]
        for i in idxs:
            for b in docs:
                a = docs[i]
                if canon(a) == canon(b):
                    continue
                try:
                    d = json.loads(json.dumps(nbdime.diff(a, b)))
                    py = U.plain(nbdime.patch(json.loads(json.dumps(a)), nbdime.diff(a, b)))
                except Exception:
                    ctx.count('python_raised(judged by C02)')
                    continue
                add({'kind': 'patch', 'base': a, 'diff': d}, py, {'kind': 'patch', 'a': a, 'b': b, 'family': name})
    elif kind == 'nb':
        _, sname, idxs = sh
        seed, d1 = M.depth1(sname)
        for i in idxs:
            for (A, B, label) in ((seed, d1[i][2], '%s->%s' % (sname, d1[i][0])), (d1[i][2], seed, '%s<-%s' % (sname, d1[i][0])),
                                  (d1[i][2], d1[(i * 11 + 5) % len(d1)][2], '%s:%s|%s' % (sname, d1[i][0], d1[(i * 11 + 5) % len(d1)][0]))):
                isolate.reset_globals()
                try:
                    a = U.to_node(A)
                    d = nbdime.diff_notebooks(a, U.to_node(B))
                    py = U.plain(nbdime.patch(U.to_node(A), d))
                except Exception:
                    ctx.count('python_raised(judged by C01)')
                    continue
                add({'kind': 'patch', 'base': A, 'diff': json.loads(json.dumps(d))}, py, {'kind': 'patch', 'A': A, 'B': B, 'label': label})
    elif kind == 'decisions':
        _, sname, idxs, step = sh
        seed, d1 = M.depth1(sname)
        for i in idxs:
            # every pair for the edits that exercise the action vocabulary (conflicting field pairs, execution counts, minors), a stride for the rest
            dense = d1[i][0] in M.COMPACT_LABELS or d1[i][1]['kind'] in ('execution_count', 'minor', 'rerun') or any(x in d1[i][0] for x in (':comment', ':quote', ':ins1'))
            for j in (range(len(d1)) if dense else range(i % step, len(d1), step)):
                decs, exc = M.run_decide(seed, d1[i][2], d1[j][2], M.MERGETOOL)
                if exc is not None:
                    ctx.count('python_raised(judged by C03)')
                    continue
                try:
                    py = U.plain(apply_decisions(U.to_node(seed), decs))
                except Exception:
                    ctx.count('python_apply_raised(judged by C09)')
                    continue
                for d in decs:
                    ctx.seen('actions', str(d.action))
                add({'kind': 'decisions', 'base': seed, 'decisions': json.loads(json.dumps(decs))}, py,
                    {'kind': 'decisions', 'base': seed, 'local': d1[i][2], 'remote': d1[j][2], 'labels': [sname, d1[i][0], d1[j][0]]})
    if not progs:
        return
    res = run_node(_G['node'], progs)
    if len(res) != len(progs):
        raise HarnessError('node returned %d results for %d programs' % (len(res), len(progs)))
    for pid, prog in zip(range(1, n + 1), progs):
        judge(ctx, prog, expect[pid], res[pid], cases[pid])
    ctx.sample({'kind': progs[0]['kind'], 'base': progs[0]['base'], 'program': progs[0].get('diff') or progs[0].get('decisions')}, rank=repr(sh[:2]))


def controls():
    if not uses_python_only_separator({'a': 'x\x0by'}) or uses_python_only_separator({'a': 'x\r\ny\n'}):
        raise HarnessError('C15 control: separator classifier')
    if canon(numval([1.0, True, 1])) != canon([1, True, 1]):
        raise HarnessError('C15 control: numval')


def run(tier, seed):
    isolate.setup_env()
    isolate.install_id_counter()
    node = find_node()
    if node is None:
        raise HarnessError('no node >= 22.15 available: the TypeScript sources cannot be executed, C15 cannot be decided')
    _G['node'] = node
    probe = run_node(node, [{'id': 1, 'kind': 'patch', 'base': [0, 1], 'diff': [{'op': 'removerange', 'key': 0, 'length': 1}]}])
    if not probe[1]['ok'] or probe[1]['result'] != [1]:
        raise HarnessError('node runner self-test failed: %r' % (probe,))
    # negative control: the comparison must flag a wrong TypeScript answer
    c = Ctx()
    judge(c, {'kind': 'patch', 'base': [0], 'diff': []}, [0, 1], {'ok': True, 'result': [0]}, {})
    if not any(f.startswith('C15|DISAGREE') for f in c.viol):
        raise HarnessError('C15 control: disagreement not flagged')
    fam = UJ.families('quick')
    keep = [k for k in fam if k.startswith('sep:') or k in ('lists3', 'lists4', 'strings', 'objects', 'het', 'types2', 'typeobj')]
    if tier == 'thorough':
        keep += ['trees:list', 'trees:dict']
    _G['fam'] = {k: fam[k] for k in keep}
    shards = []
    for name in sorted(_G['fam']):
        docs = _G['fam'][name]
        for ch in chunked(range(len(docs)), max(1, len(docs) // (4 if len(docs) > 100 else 1))):
            shards.append(('generic', name, ch))
    names = ('S45', 'S44', 'Sjson', 'Ssim', 'Sv2') if tier == 'quick' else tuple(sorted(U.seeds()))
    for sname in names:
        _, d1 = M.depth1(sname)
        for ch in chunked(range(len(d1)), 40):
            shards.append(('nb', sname, ch))
    plan = [('S45', 3), ('Sv2', 1), ('Sempty', 1)] if tier == 'quick' else [('S45', 1), ('S44', 1), ('Sv2', 1), ('Sjson', 1), ('Ssim', 2), ('Sempty', 1), ('Sv0', 1)]
    for sname, step in plan:
        _, d1 = M.depth1(sname)
        for ch in chunked(range(len(d1)), 12):
            shards.append(('decisions', sname, ch, step))
    ctx = run_shards(_shard, shards, seed=seed, label=PROP)
    ev = ctx.counters['evaluations']
    return Result(
        ctx, level='translation_validation',
        rule=('one program = one (base, diff) or (base, decisions) pair produced by the Python side over the listed spaces, run through both implementations; '
              'programs are distinct by construction (distinct inputs); all are non-trivial (non-empty diffs / decision lists)'),
        evaluations=ev, distinct_nontrivial=ctx.counters['nontrivial'], programs=ev, disagreements_checked=ev,
        states=sum(len(v) for v in _G['fam'].values()), transitions=ev, traces_validated=ev, exhaustive=True,
        bounds={'tier': tier, 'generic_families': {k: len(v) for k, v in _G['fam'].items()}, 'notebook_seeds': list(names), 'decision_plan': plan, 'node': node},
        assumptions=['TypeScript sources are executed by node\'s type stripping with loader hooks (mc/ts/hooks.mjs); @lumino/coreutils and json-stable-stringify are stubbed',
                     'the library functions are exercised, not the browser widgets',
                     'numbers are compared by value'],
    )


def replay(case, ctx):
    import nbdime
    from nbdime.merging.decisions import apply_decisions
    isolate.setup_env()
    isolate.install_id_counter()
    node = find_node()
    if case['kind'] == 'patch':
        if 'a' in case:
            a, b = case['a'], case['b']
            d = json.loads(json.dumps(nbdime.diff(a, b)))
            py = U.plain(nbdime.patch(json.loads(json.dumps(a)), nbdime.diff(a, b)))
            prog = {'id': 1, 'kind': 'patch', 'base': a, 'diff': d}
        else:
            A, B = case['A'], case['B']
            dd = nbdime.diff_notebooks(U.to_node(A), U.to_node(B))
            py = U.plain(nbdime.patch(U.to_node(A), dd))
            prog = {'id': 1, 'kind': 'patch', 'base': A, 'diff': json.loads(json.dumps(dd))}
    else:
        decs, exc = M.run_decide(case['base'], case['local'], case['remote'], M.MERGETOOL)
        py = U.plain(apply_decisions(U.to_node(case['base']), decs))
        prog = {'id': 1, 'kind': 'decisions', 'base': case['base'], 'decisions': json.loads(json.dumps(decs))}
    res = run_node(node, [prog])
    judge(ctx, prog, py, res[1], case)
