"""C02 - generic JSON diff/patch round trip is exact, including value types.

Space : every ordered pair (a, b) inside each family of mc.universe_json.families(tier)
        (same container type by construction).
Oracle: nbdime.patch(a, diff(a,b)) and the independent ref_patch(a, diff(a,b)) both serialise
        to exactly canon(b); diff(a,b) == [] only if canon(a) == canon(b); diff does not raise.
"""
from .. import universe_json as U
from ..engine import Ctx, canon, run_shards, chunked, time_limit, HarnessError
from ..findings import exc_fingerprint, normalise_message
from ..oracles.refpatch import ref_patch, RefPatchError
from ..run import Result

PROP = 'C02'


def _nb():
    import nbdime
    return nbdime


def classify(got, want):
    """type-only: Python == holds although the canonical JSON differs (bool/int/float)."""
    try:
        if got == want:
            return 'type-only'
    except Exception:
        pass
    return 'value'


def walk_ops(d, depth, ctx):
    for e in d:
        ctx.seen('ops_by_depth', '%d:%s' % (depth, e['op']))
        if e['op'] == 'patch':
            walk_ops(e['diff'], depth + 1, ctx)


def check_pair(a, b, ctx, family=''):
    """Evaluate the oracle on one pair; records violations in ctx."""
    import nbdime
    ctx.count('evaluations')
    ca, cb = canon(a), canon(b)
    if ca != cb:
        ctx.count('nontrivial')
    case = {'a': a, 'b': b, 'family': family}
    try:
        with time_limit(20):
            d = nbdime.diff(a, b)
    except Exception as e:
        ctx.violation(exc_fingerprint(PROP, e, 'DIFF-EXC'), 'diff raised %s' % type(e).__name__, case)
        return
    if canon(a) != ca or canon(b) != cb:
        ctx.violation('%s|INPUT-MUTATED' % PROP, 'diff modified its input', case)
    walk_ops(d, 0, ctx)
    if not d:
        ctx.count('empty_diffs')
        if ca != cb:
            ctx.violation('%s|EMPTYDIFF|%s' % (PROP, classify(a, b)),
                          'diff is empty although the documents serialise differently', case)
        return
    if ca == cb:
        ctx.violation('%s|NONEMPTY-DIFF-OF-EQUAL' % PROP, 'non-empty diff for identical documents', case)
    try:
        p = nbdime.patch(a, d)
    except Exception as e:
        ctx.violation(exc_fingerprint(PROP, e, 'PATCH-EXC'), 'patch raised %s' % type(e).__name__, case)
        p = None
    if p is not None and canon(p) != cb:
        ctx.violation('%s|ROUNDTRIP|%s' % (PROP, classify(p, b)),
                      'patch(a, diff(a,b)) does not serialise to b', dict(case, got=p))
    try:
        rp = ref_patch(a, d)
    except RefPatchError as e:
        ctx.violation('%s|REFPATCH|error|%s' % (PROP, normalise_message(e)),
                      'independent patcher rejects the diff: %s' % e, case)
        return
    if canon(rp) != cb:
        ctx.violation('%s|REFPATCH|%s' % (PROP, classify(rp, b)),
                      'independent patcher applied to diff(a,b) does not give b', dict(case, got=rp))


_FAM = {}


def _shard(sh, ctx):
    name, idxs = sh
    docs = _FAM[name]
    for i in idxs:
        a = docs[i]
        for j, b in enumerate(docs):
            check_pair(a, b, ctx, name)
            if (i * 7919 + j * 104729) % 50021 == 0:
                ctx.sample({'family': name, 'a': a, 'b': b}, rank=(name, i, j))


def controls():
    """Negative controls: the oracle must reject deliberately wrong cases."""
    if canon(1) == canon(True) or canon(1) == canon(1.0) or canon([0]) == canon([False]):
        raise HarnessError('canonical JSON does not separate value types')
    if classify([1], [True]) != 'type-only' or classify([1], [2]) != 'value':
        raise HarnessError('classifier control failed')
    # reference patcher: documented semantics on hand-computed examples
    ex = [
        ([0, 1, 2], [{'op': 'removerange', 'key': 0, 'length': 1}, {'op': 'addrange', 'key': 3, 'valuelist': [9]}], [1, 2, 9]),
        ([0, 1], [{'op': 'addrange', 'key': 1, 'valuelist': [5, 6]}, {'op': 'removerange', 'key': 1, 'length': 1}], [0, 5, 6]),
        ({'a': 1, 'b': 2}, [{'op': 'remove', 'key': 'a'}, {'op': 'replace', 'key': 'b', 'value': 3}, {'op': 'add', 'key': 'c', 'value': 4}], {'b': 3, 'c': 4}),
        ("ab\ncd\n", [{'op': 'patch', 'key': 1, 'diff': [{'op': 'addrange', 'key': 1, 'valuelist': 'X'}, {'op': 'removerange', 'key': 1, 'length': 1}]}], "ab\ncX\n"),
        ("a\nb", [{'op': 'addrange', 'key': 2, 'valuelist': ['c\n']}], "a\nbc\n"),
    ]
    for base, d, want in ex:
        if canon(ref_patch(base, d)) != canon(want):
            raise HarnessError('reference patcher control failed on %r' % (base,))
    for base, d in [([0], [{'op': 'removerange', 'key': 0, 'length': 2}]),
                    ([0], [{'op': 'patch', 'key': 0, 'diff': []}]),
                    ({'a': 1}, [{'op': 'add', 'key': 'a', 'value': 2}]),
                    ([0, 1], [{'op': 'removerange', 'key': 0, 'length': 2}, {'op': 'patch', 'key': 1, 'diff': []}])]:
        try:
            ref_patch(base, d)
        except RefPatchError:
            continue
        raise HarnessError('reference patcher accepted an ill-formed diff %r' % (d,))
    # the oracle must flag a wrong round trip
    c = Ctx()
    import nbdime
    orig = nbdime.patch
    try:
        nbdime.patch = lambda a, d: a
        check_pair([0, 1], [0, 2], c)
    finally:
        nbdime.patch = orig
    if not any(fp.startswith('C02|ROUNDTRIP') for fp in c.viol):
        raise HarnessError('round-trip oracle did not flag an identity patch')


def run(tier, seed):
    fam = U.families(tier)
    _FAM.clear()
    _FAM.update(fam)
    shards = []
    for name, docs in sorted(fam.items()):
        n = len(docs)
        per = max(1, min(n, (40000 // max(n, 1)) or 1))
        idx = list(range(n))
        for i in range(0, n, per):
            shards.append((name, idx[i:i + per]))
    ctx = run_shards(_shard, shards, seed=seed, label=PROP)
    nstates = sum(len(v) for v in fam.values())
    ev = ctx.counters['evaluations']
    return Result(
        ctx, level='exploration',
        rule=('every ordered pair (a,b) inside each generated family (families de-duplicated by canonical '
              'JSON, so every evaluated pair is distinct by construction); a pair is non-trivial when '
              'canon(a) != canon(b)'),
        evaluations=ev, distinct_nontrivial=ctx.counters['nontrivial'],
        states=nstates, transitions=ev, traces_validated=ev, exhaustive=True,
        bounds={'tier': tier, 'families': {k: len(v) for k, v in sorted(fam.items())}},
        assumptions=['documents larger than the stated family bounds are not explored',
                     'reference patcher mc/oracles/refpatch.py encodes docs/source/diffing.rst'],
    )


def replay(case, ctx):
    check_pair(case['a'], case['b'], ctx, case.get('family', ''))
