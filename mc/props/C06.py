"""C06 - changes to different cells merge cleanly into exactly both sets of changes.

Space : bases with n in {2,3,4} cells; every assignment of (owner, action) to every cell, action in
        {leave, similar source edit, source rewrite, outputs edit, metadata edit, execution count,
        re-run, attachment edit, delete}; insertions by either side in every gap that is not adjacent
        to a cell touched by the other side.  Generic JSON: objects with disjoint key changes, lists
        with changes at separate positions.
Oracle: expectation by construction - the merged document is built directly from the two tagged
        edit scripts (no diffing involved) and must equal the merge result; no decision conflicted.
"""
import copy
import itertools

from .. import isolate, mergecore as M, universe_nb as U
from ..engine import Ctx, canon, run_shards, chunked, time_limit, HarnessError
from ..findings import exc_fingerprint
from ..run import Result

PROP = 'C06'
cp = copy.deepcopy


# ---- per-cell actions --------------------------------------------------------------------------------

def act_src(c):
    L = c['source'].splitlines(True)
    if not L:
        return dict(c, source='added = 1\n')
    body = L[0].rstrip('\r\n')
    L[0] = body + '  # note' + L[0][len(body):]
    return dict(c, source=''.join(L))


def act_src_last(c):
    L = c['source'].splitlines(True)
    if len(L) < 2:
        return None
    body = L[-1].rstrip('\r\n')
    L[-1] = body + ' + 1' + L[-1][len(body):]
    return dict(c, source=''.join(L))


def act_rewrite(c):
    return dict(c, source="completely = 'different'\ncontent()\n")


def act_out(c):
    if c['cell_type'] != 'code':
        return None
    outs = cp(c['outputs'])
    if outs and outs[0]['output_type'] == 'stream':
        outs[0]['text'] += 'one more line\n'
    else:
        outs.append(U.stream('fresh output\n'))
    return dict(c, outputs=outs)


def act_out_clear(c):
    if c['cell_type'] != 'code' or not c['outputs']:
        return None
    return dict(c, outputs=[])


def act_meta(c):
    m = cp(c['metadata'])
    m['custom'] = {'a': 1}
    return dict(c, metadata=m)


def act_ec(c):
    if c['cell_type'] != 'code':
        return None
    return dict(c, execution_count=7 if c['execution_count'] != 7 else 8)


def act_rerun(c):
    if c['cell_type'] != 'code' or not c['outputs']:
        return None
    outs = cp(c['outputs'])
    for o in outs:
        if o['output_type'] == 'execute_result':
            o['execution_count'] = 9
        if o['output_type'] == 'stream':
            o['text'] += 'rerun\n'
    return dict(c, outputs=outs, execution_count=9)


def act_att(c):
    if c['cell_type'] != 'markdown':
        return None
    a = cp(c.get('attachments') or {})
    a['b.png'] = {'image/png': U.PNG2}
    return dict(c, attachments=a)


def act_replace(c):
    """The cell is deleted and an unrelated new cell (own id) is put in its place: what a differ also reports when a cell of an id-less notebook is
    rewritten beyond recognition.  Still a change to this cell only."""
    n = U.code_cell("brand_new = {'unrelated': True}\nprint(brand_new)\n")
    if 'id' in c:
        n['id'] = 'new-' + c['id']
    return n


DELETE = object()


def act_delete(c):
    return DELETE


ACTIONS = [('src', act_src), ('src-last', act_src_last), ('rewrite', act_rewrite), ('out', act_out), ('out-clear', act_out_clear),
           ('meta', act_meta), ('ec', act_ec), ('rerun', act_rerun), ('att', act_att), ('replace', act_replace), ('delete', act_delete)]
QUICK_ACTIONS = ('src', 'rewrite', 'out', 'meta', 'ec', 'rerun', 'att', 'replace', 'delete')


def bases(tier):
    S = U.seeds()
    out = {}
    out['S45'] = S['S45']
    out['S44'] = S['S44']
    b2 = cp(S['S45']); b2['cells'] = b2['cells'][:2]; out['S45-2'] = b2
    b2 = cp(S['S44']); b2['cells'] = b2['cells'][1:]; out['S44-2'] = b2
    out['Sjson'] = S['Sjson']
    if tier == 'thorough':
        b4 = cp(S['S45']); b4['cells'] = b4['cells'] + [cp(dict(U.cell_pool(True))['C3'])]; out['S45-4'] = b4
        b4 = cp(S['S44']); b4['cells'] = [cp(dict(U.cell_pool(False))['M3'])] + b4['cells']; out['S44-4'] = b4
        s = cp(S['Ssim']); s['cells'] = s['cells'][:4]; out['Ssim-4'] = s
        out['Sv2'] = S['Sv2']
    for k, v in out.items():
        assert U.valid(v), k
    return out


def cell_options(c, tier):
    """[(name, result)] of applicable non-leave actions for this cell."""
    opts = []
    for name, f in ACTIONS:
        if tier == 'quick' and name not in QUICK_ACTIONS:
            continue
        r = f(c)
        if r is None:
            continue
        if r is not DELETE and canon(r) == canon(c):
            continue
        opts.append((name, r))
    return opts


def build(base, assignment):
    """assignment: per cell None | (owner, name, result).  Returns (local, remote, expected)."""
    L, R, E = [], [], []
    for c, a in zip(base['cells'], assignment):
        if a is None:
            L.append(c); R.append(c); E.append(c)
            continue
        owner, name, res = a
        if owner == 'L':
            if res is not DELETE:
                L.append(res)
            R.append(c)
        else:
            L.append(c)
            if res is not DELETE:
                R.append(res)
        if res is not DELETE:
            E.append(res)

    def nb(cells):
        m = dict(base)
        m['cells'] = cp(cells)
        return m
    return nb(L), nb(R), nb(E)


def check(ctx, B, L, R, E, cfg, desc):
    ctx.count('evaluations')
    both = canon(L) != canon(B) and canon(R) != canon(B)
    if both:
        ctx.count('nontrivial')
    out = M.run_merge(B, L, R, cfg)
    case = {'base': B, 'local': L, 'remote': R, 'expected': E, 'config': list(cfg), 'desc': desc}
    if out.exc is not None:
        ctx.violation(exc_fingerprint(PROP, out.exc), 'merge raised %s: %s' % (type(out.exc).__name__, out.exc), case)
        return
    kinds = sorted({d.split(':')[1] for d in desc if ':' in d})
    if out.conflicted:
        ctx.violation('%s|CONFLICT|%s' % (PROP, classify(B, L, R)), 'conflict reported although the sides changed different cells (%s)' % ','.join(desc), case)
    if canon(out.merged) != canon(E):
        ctx.violation('%s|RESULT|%s' % (PROP, classify(B, L, R)), 'merged notebook is not base plus both sets of changes (%s)' % ','.join(desc), case)


def classify(B, L, R):
    """Classifier for fingerprints: with or without cell ids."""
    return 'ids' if B['nbformat_minor'] >= 5 else 'no-ids'


CONFIGS = [M.DEFAULT, M.MERGETOOL, ('use-remote', None, None, True), ('inline', None, None, False), ('use-local', None, None, True),
           ('use-base', None, None, True), ('inline', 'use-remote', 'clear-all', True)]

_G = {}


def enumerate_assignments(base, tier):
    opts = [cell_options(c, tier) for c in base['cells']]
    per_cell = []
    for o in opts:
        choices = [None]
        for name, res in o:
            choices.append(('L', name, res))
            choices.append(('R', name, res))
        per_cell.append(choices)
    return per_cell


def _shard(sh, ctx):
    kind = sh[0]
    if kind == 'cells':
        _, bname, first_choices, ncfg = sh
        base = _G['bases'][bname]
        per_cell = _G['per_cell'][bname]
        for first in first_choices:
            for rest in itertools.product(*per_cell[1:]):
                assignment = (per_cell[0][first],) + rest
                L, R, E = build(base, assignment)
                desc = ['%d:%s:%s' % (i, a[1], a[0]) for i, a in enumerate(assignment) if a]
                for cfg in CONFIGS[:ncfg]:
                    check(ctx, base, L, R, E, cfg, desc)
        ctx.sample({'base': bname, 'assignment_of_first_cell': first_choices, 'other_cells': [len(p) for p in per_cell[1:]]}, rank=(bname, first_choices[0]))
    elif kind == 'gaps':
        _, bname, gap, ncfg = sh
        base = _G['bases'][bname]
        per_cell = _G['per_cell'][bname]
        n = len(base['cells'])
        with_ids = base['nbformat_minor'] >= 5
        pool = dict(U.cell_pool(with_ids))
        for inserter in ('L', 'R'):
            other = 'R' if inserter == 'L' else 'L'
            for pname in ('C1', 'M3', 'C3'):
                newcell = pool[pname]
                if any(c['source'] == newcell['source'] for c in base['cells']):
                    # a new cell indistinguishable from a base cell makes "who touched which cell" ambiguous (the same pair of notebooks is
                    # explained by a move as well); the by-construction expectation does not apply
                    ctx.count('skipped:inserted cell equals a base cell')
                    continue
                # the other side may act on cells not adjacent to the gap; the inserter may act anywhere
                choices = []
                for i in range(n):
                    adjacent = i in (gap - 1, gap)
                    ch = [None]
                    for a in per_cell[i][1:]:
                        if a[0] == other and adjacent:
                            continue
                        if a[1] in ('src', 'delete', 'out', 'meta'):
                            ch.append(a)
                    choices.append(ch)
                for assignment in itertools.product(*choices):
                    L, R, E = build(base, assignment)
                    # place the insertion: position in each notebook = number of surviving cells before the gap
                    def insert(nb, side_has):
                        cells = nb['cells']
                        if not side_has:
                            return nb
                        # recompute position from the assignment
                        return nb
                    posL = sum(1 for i in range(gap) if not (assignment[i] and assignment[i][0] == 'L' and assignment[i][2] is DELETE))
                    posR = sum(1 for i in range(gap) if not (assignment[i] and assignment[i][0] == 'R' and assignment[i][2] is DELETE))
                    posE = sum(1 for i in range(gap) if not (assignment[i] and assignment[i][2] is DELETE))
                    if inserter == 'L':
                        L['cells'].insert(posL, cp(newcell))
                    else:
                        R['cells'].insert(posR, cp(newcell))
                    E['cells'].insert(posE, cp(newcell))
                    desc = ['gap%d:insert-%s:%s' % (gap, pname, inserter)] + ['%d:%s:%s' % (i, a[1], a[0]) for i, a in enumerate(assignment) if a]
                    for cfg in CONFIGS[:ncfg]:
                        check(ctx, base, L, R, E, cfg, desc)
    elif kind == 'generic':
        generic_shard(sh, ctx)


# ---- generic JSON -------------------------------------------------------------------------------------

def generic_cases():
    """Yield (base, local, remote, expected, desc) with changes under different keys / at separate positions."""
    # objects: each key owned by one side or untouched
    base = {'a': 0, 'b': {'c': 0, 'd': [0, 1]}, 'e': 'x\ny\n', 'f': [0, 1, 2]}
    changes = {
        'a': [('replace', 1), ('remove', None)],
        'b': [('patch', {'c': 1, 'd': [0, 1]}), ('patch', {'c': 0, 'd': [0, 1, 2]}), ('remove', None)],
        'e': [('patch', 'x\nz\n'), ('replace', 5)],
        'f': [('patch', [0, 2]), ('patch', [0, 1, 2, 3])],
        'g': [('add', 7), ('add', {'h': 1})],
    }
    keys = sorted(changes)
    per_key = []
    for k in keys:
        ch = [None]
        for kind, val in changes[k]:
            ch.append(('L', kind, val))
            ch.append(('R', kind, val))
        per_key.append(ch)
    for assignment in itertools.product(*per_key):
        l, r, e = cp(base), cp(base), cp(base)
        desc = []
        for k, a in zip(keys, assignment):
            if a is None:
                continue
            owner, kind, val = a
            for doc in ((l, e) if owner == 'L' else (r, e)):
                if kind == 'remove':
                    doc.pop(k, None)
                else:
                    doc[k] = cp(val)
            desc.append('%s:%s:%s' % (k, kind, owner))
        yield base, l, r, e, desc
    # lists: items at separate positions
    lbase = [{'v': 0}, 'p', {'v': 1}, 'q', {'v': 2}]
    item_changes = {
        0: [('patch', {'v': 0, 'w': 1}), ('delete', None)],
        1: [('replace', 'P'), ('delete', None)],
        2: [('patch', {'v': 9}), ('delete', None)],
        3: [('replace', 'Q'), ('delete', None)],
        4: [('patch', {'v': 2, 'w': 1}), ('delete', None)],
    }
    per_item = []
    for i in range(len(lbase)):
        ch = [None]
        for kind, val in item_changes[i]:
            ch.append(('L', kind, val))
            ch.append(('R', kind, val))
        per_item.append(ch)
    for assignment in itertools.product(*per_item):
        l, r, e = [], [], []
        desc = []
        for i, a in enumerate(assignment):
            item = lbase[i]
            if a is None:
                l.append(cp(item)); r.append(cp(item)); e.append(cp(item))
                continue
            owner, kind, val = a
            new = None if kind == 'delete' else cp(val)
            if owner == 'L':
                if new is not None:
                    l.append(new)
                r.append(cp(item))
            else:
                l.append(cp(item))
                if new is not None:
                    r.append(new)
            if new is not None:
                e.append(cp(new))
            desc.append('%d:%s:%s' % (i, kind, owner))
        yield lbase, l, r, e, desc


def generic_classify(desc):
    """adjacent: some pair of positions touched by different sides is adjacent (list cases)."""
    pos = {}
    for d in desc:
        k, kind, owner = d.split(':')
        if k.isdigit():
            pos[int(k)] = (owner, kind)
    adj = any(i + 1 in pos and pos[i][0] != pos[i + 1][0] for i in pos)
    kinds = set(k for _, k in pos.values())
    return ('list-adjacent' if adj else 'list-separated') if pos else 'object'


def generic_shard(sh, ctx):
    import nbdime
    from nbdime.merging.decisions import apply_decisions
    _, lo, hi = sh
    for idx, (b, l, r, e, desc) in enumerate(_G['generic']):
        if not lo <= idx < hi:
            continue
        ctx.count('evaluations')
        ctx.count('generic_cases')
        if canon(l) != canon(b) and canon(r) != canon(b):
            ctx.count('nontrivial')
        case = {'base': b, 'local': l, 'remote': r, 'expected': e, 'desc': desc, 'generic': True}
        try:
            with time_limit(20):
                dec = nbdime.decide_merge(b, l, r)
                m = apply_decisions(b, dec)
        except Exception as ex:
            ctx.violation(exc_fingerprint(PROP, ex, 'GENERIC-EXC'), 'generic merge raised %s: %s' % (type(ex).__name__, ex), case)
            continue
        cls = generic_classify(desc)
        if any(d.conflict for d in dec):
            ctx.violation('%s|GENERIC-CONFLICT|%s' % (PROP, cls), 'conflict reported for changes under different keys / positions', case)
        if canon(m) != canon(e):
            ctx.violation('%s|GENERIC-RESULT|%s' % (PROP, cls), 'generic merge is not base plus both sets of changes', case)
        if idx % 911 == 0:
            ctx.sample({'generic': True, 'base': b, 'desc': desc}, rank=('generic', idx))


def controls():
    isolate.setup_env()
    isolate.install_id_counter()
    B = U.seeds()['S45']
    per_cell = [[None] + [('L', n, r) for n, r in cell_options(c, 'quick')] for c in B['cells']]
    a = (per_cell[0][1], None, ('R',) + per_cell[2][1][1:])
    L, R, E = build(B, a)
    if canon(L) == canon(B) or canon(R) == canon(B) or canon(E) in (canon(L), canon(R)):
        raise HarnessError('C06 control: construction does not change both sides')
    c = Ctx()
    check(c, B, L, R, L, M.DEFAULT, ['control'])   # wrong expectation must be flagged
    if not any(f.startswith('C06|RESULT') for f in c.viol):
        raise HarnessError('C06 control: wrong expectation not flagged')


def run(tier, seed):
    isolate.setup_env()
    isolate.install_id_counter()
    B = bases(tier)
    _G['bases'] = B
    _G['per_cell'] = {k: enumerate_assignments(v, tier) for k, v in B.items()}
    _G['generic'] = list(generic_cases())
    ncfg = 4 if tier == 'quick' else len(CONFIGS)
    shards = []
    sizes = {}
    for bname, base in sorted(B.items()):
        pc = _G['per_cell'][bname]
        total = 1
        for p in pc:
            total *= len(p)
        sizes[bname] = total
        for ch in chunked(range(len(pc[0])), len(pc[0])):
            shards.append(('cells', bname, tuple(ch), ncfg))
        gaps = range(len(base['cells']) + 1)
        if tier == 'quick' and bname not in ('S45', 'S44'):
            continue
        for g in gaps:
            shards.append(('gaps', bname, g, 2 if tier == 'quick' else 4))
    ng = len(_G['generic'])
    for lo in range(0, ng, 400):
        shards.append(('generic', lo, lo + 400))
    ctx = run_shards(_shard, shards, seed=seed, label=PROP)
    ev = ctx.counters['evaluations']
    return Result(
        ctx, level='exploration',
        rule=('every assignment of (owner, action) to every cell of each base (product over cells, 1 + 2 x applicable actions choices per '
              'cell) x configurations; every gap x inserter x pool cell x admissible assignments; every generic disjoint-change case; each '
              'assignment is a distinct case by construction; non-trivial = both sides changed something'),
        evaluations=ev, distinct_nontrivial=ctx.counters['nontrivial'],
        states=sum(sizes.values()) + ng, transitions=ev, traces_validated=ev, exhaustive=True,
        bounds={'tier': tier, 'assignments_per_base': sizes, 'configs': [M.cfg_name(c) for c in CONFIGS[:ncfg]], 'generic_cases': ng},
        assumptions=['expected result is built per cell from the tagged actions; no diff is involved in the expectation',
                     'insertions only in gaps whose neighbouring cells the other side left untouched (statement)'],
    )


def replay(case, ctx):
    isolate.setup_env()
    isolate.install_id_counter()
    if case.get('generic'):
        _G['generic'] = [(case['base'], case['local'], case['remote'], case['expected'], case['desc'])]
        generic_shard(('generic', 0, 1), ctx)
        return
    check(ctx, case['base'], case['local'], case['remote'], case['expected'], tuple(case['config']), case.get('desc', []))
