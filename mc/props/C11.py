"""C11 - every produced diff is well-formed for its base document and the diff schema.

Space : every diff produced over the C02 (generic) and C01 (notebook) spaces, and every local / remote /
        custom diff and similar_insert embedded in the merge decisions of the C09 space.
Oracle: mc/oracles/wellformed.check (ordering, disjointness, bounds, key existence, patch targets,
        non-empty nested patches, string line/character levels), jsonschema validation against
        diff_format.schema.json, and json.loads(json.dumps(d)) == d.
"""
import json

from .. import isolate, mergecore as M, universe_nb as U, universe_json as UJ
from ..engine import Ctx, canon, run_shards, chunked, time_limit, HarnessError
from ..oracles import wellformed
from ..oracles.schemas import validate_diff_schema
from ..run import Result
from . import C01 as C01mod

PROP = 'C11'


def judge(ctx, base, d, origin, case, mode='doc'):
    """base: plain JSON document the diff refers to; d: the diff as produced."""
    ctx.count('diffs_checked')
    try:
        text = json.dumps(d)
        dj = json.loads(text)
    except (TypeError, ValueError) as e:
        ctx.violation('%s|JSON|%s|%s' % (PROP, origin, type(e).__name__), 'diff is not JSON serialisable', case)
        return
    if dj != U.plain(d):
        ctx.violation('%s|JSON-ROUNDTRIP|%s' % (PROP, origin), 'diff changes under a JSON round trip', case)
    if not dj:
        return
    ctx.count('nonempty_diffs')
    errs = []
    wellformed._check(base, dj, '', errs, mode)
    for code, path in errs:
        ctx.violation('%s|WELLFORMED|%s|%s|%s' % (PROP, origin, code, wellformed.star(path)), 'ill-formed diff (%s at %s)' % (code, path or '/'), case)
    for path, kw, msg in validate_diff_schema(dj):
        ctx.violation('%s|SCHEMA|%s|%s|%s' % (PROP, origin, kw, msg), 'diff violates diff_format.schema.json at %s' % path, case)


def resolve_base(doc, path):
    """Value the diffs of a decision refer to, and the mode (doc / chars when the path addresses a line)."""
    cur = doc
    for i, k in enumerate(path):
        if isinstance(cur, str):
            rest = path[i:]
            if len(rest) != 1:
                return None, None
            ls = cur.splitlines(True)
            if not (isinstance(rest[0], int) and 0 <= rest[0] < len(ls)):
                return None, None
            return ls[rest[0]], 'chars'
        try:
            cur = cur[k]
        except (KeyError, IndexError, TypeError):
            return None, None
    return cur, 'doc'


def judge_decisions(ctx, B, decisions, case):
    for d in decisions:
        path = list(d.get('common_path') or [])
        base, mode = resolve_base(B, path)
        if mode is None:
            ctx.violation('%s|DECISION-PATH-UNRESOLVABLE' % PROP, 'common_path %r does not resolve in base' % (path,), case)
            continue
        for field in ('local_diff', 'remote_diff', 'custom_diff'):
            dd = d.get(field)
            if dd:
                if any(e.get('op') == 'parent_deleted' for e in dd if isinstance(e, dict)):
                    ctx.violation('%s|INTERNAL-OP-LEAKED|%s' % (PROP, field), 'internal parent_deleted op in a returned decision', case)
                    continue
                judge(ctx, base, dd, 'decision.' + field, case, mode)
        si = d.get('similar_insert')
        if si:
            ld = d.get('local_diff') or []
            ok = (len(si) == 1 and si[0].get('op') == 'patch' and ld and ld[0].get('op') == 'addrange' and len(ld[0].get('valuelist', [])) == 1)
            if not ok:
                ctx.violation('%s|SIMILAR-INSERT-SHAPE' % PROP, 'similar_insert is not a single patch relative to the single inserted local item', case)
            else:
                judge(ctx, ld[0]['valuelist'][0], si[0]['diff'], 'decision.similar_insert', case)


_G = {}


def _shard(sh, ctx):
    import nbdime
    kind = sh[0]
    if kind == 'generic':
        _, name, idxs = sh
        docs = _G['fam'][name]
        for i in idxs:
            a = docs[i]
            for b in docs:
                ctx.count('evaluations')
                if canon(a) != canon(b):
                    ctx.count('nontrivial')
                try:
                    with time_limit(20):
                        d = nbdime.diff(a, b)
                except Exception:
                    ctx.count('diff_raised(judged by C02)')
                    continue
                judge(ctx, a, d, 'generic', {'a': a, 'b': b, 'family': name})
        ctx.sample({'family': name, 'a': docs[idxs[0]]}, rank=(name, idxs[0]))
    elif kind == 'nbpairs':
        _, name, pairs = sh
        sp = _G['nb'][name]
        for (i, j) in pairs:
            A = sp[i]
            Bn = sp[j]
            ctx.count('evaluations')
            ctx.count('nontrivial')
            isolate.reset_globals()
            try:
                with time_limit(30):
                    d = nbdime.diff_notebooks(U.to_node(A), U.to_node(Bn))
            except Exception:
                ctx.count('diff_raised(judged by C01)')
                continue
            judge(ctx, A, d, 'notebook', {'A': A, 'B': Bn, 'label': '%s:%d|%d' % (name, i, j)})
    elif kind == 'decisions':
        for B, L, R, cfg, ts, labels in M.shard_triples(sh[1]):
            ctx.count('evaluations')
            if labels[1] != labels[2]:
                ctx.count('nontrivial')
            decs, exc = M.run_decide(B, L, R, cfg, ts)
            if exc is not None:
                ctx.count('merge_raised(judged by C03)')
                continue
            judge_decisions(ctx, B, U.plain(decs), {'base': B, 'local': L, 'remote': R, 'config': list(cfg), 'toolset': ts, 'labels': list(labels)})


BAD_DIFFS = [
    ([0, 1, 2], [{'op': 'removerange', 'key': 1, 'length': 1}, {'op': 'addrange', 'key': 0, 'valuelist': [5]}], 'unsorted'),
    ([0, 1, 2], [{'op': 'removerange', 'key': 0, 'length': 2}, {'op': 'patch', 'key': 1, 'diff': [{'op': 'addrange', 'key': 0, 'valuelist': [1]}]}], 'overlap'),
    ([0, 1], [{'op': 'removerange', 'key': 1, 'length': 2}], 'removerange-out-of-bounds'),
    ([0, 1], [{'op': 'addrange', 'key': 3, 'valuelist': [1]}], 'addrange-out-of-bounds'),
    ([0, 1], [{'op': 'removerange', 'key': 1, 'length': 1}, {'op': 'addrange', 'key': 1, 'valuelist': [1]}], 'addrange-after-removerange-at-same-key'),
    ({'a': 1}, [{'op': 'add', 'key': 'a', 'value': 2}], 'add-of-present-key'),
    ({'a': 1}, [{'op': 'remove', 'key': 'b'}], 'remove-of-absent-key'),
    ({'a': 1}, [{'op': 'replace', 'key': 'a', 'value': 2}, {'op': 'remove', 'key': 'a'}], 'key-targeted-twice'),
    ({'a': [1]}, [{'op': 'patch', 'key': 'a', 'diff': []}], 'empty-patch'),
    ({'a': 1}, [{'op': 'patch', 'key': 'a', 'diff': [{'op': 'addrange', 'key': 0, 'valuelist': [1]}]}], 'patch-into-atom'),
    ([0], [{'op': 'replace', 'key': 0, 'value': 1}], 'bad-seq-op:replace'),
    ("ab\n", [{'op': 'patch', 'key': 0, 'diff': [{'op': 'patch', 'key': 0, 'diff': [{'op': 'addrange', 'key': 0, 'valuelist': 'x'}]}]}], 'patch-into-character'),
]


def controls():
    for base, d, code in BAD_DIFFS:
        errs = wellformed.check(base, d)
        if not any(c == code for c, _ in errs):
            raise HarnessError('C11 control: %s not reported for %r (got %r)' % (code, d, errs))
    good = [([0, 1, 2], [{'op': 'addrange', 'key': 1, 'valuelist': [9]}, {'op': 'removerange', 'key': 1, 'length': 1}, {'op': 'addrange', 'key': 3, 'valuelist': [7]}]),
            ("a\nb", [{'op': 'patch', 'key': 1, 'diff': [{'op': 'addrange', 'key': 1, 'valuelist': 'c'}]}, {'op': 'addrange', 'key': 2, 'valuelist': ['d\n']}])]
    for base, d in good:
        if wellformed.check(base, d):
            raise HarnessError('C11 control: well-formed diff rejected: %r' % (wellformed.check(base, d),))
    if not validate_diff_schema([{'op': 'frobnicate', 'key': 0}]):
        raise HarnessError('C11 control: schema accepted an unknown op')


def run(tier, seed):
    isolate.setup_env()
    isolate.install_id_counter()
    fam = UJ.families(tier)
    _G['fam'] = fam
    shards = []
    for name, docs in sorted(fam.items()):
        n = len(docs)
        per = max(1, min(n, (40000 // max(n, 1)) or 1))
        for i in range(0, n, per):
            shards.append(('generic', name, list(range(i, min(n, i + per)))))
    # notebook pairs: seed<->state and depth-1 x depth-1
    S = U.seeds()
    _G['nb'] = {}
    depth = 1 if tier == 'quick' else 2
    nstates = 0
    for name, sd in sorted(S.items()):
        levels, _ = U.explore(sd, depth if name in ('S45', 'Sjson') else 1)
        states = [sd] + [nb for lev in levels[1:] for nb, _ in lev]
        _G['nb'][name] = states
        nstates += len(states)
        pairs = [(0, j) for j in range(1, len(states))] + [(j, 0) for j in range(1, len(states))]
        d1n = len(levels[1])
        if name in (('S45', 'Sjson', 'Sv2') if tier == 'quick' else ('S45', 'S44', 'Sjson', 'Ssim', 'Sv2')):
            pairs += [(i, j) for i in range(1, d1n + 1) for j in range(1, d1n + 1) if i != j]
        for ch in chunked(pairs, max(1, len(pairs) // 3000 + 1) * 8):
            shards.append(('nbpairs', name, ch))
    # decisions
    mshards, info = M.space(tier, parts=('b', 'runs'))
    for sh in mshards:
        shards.append(('decisions', sh))
    ctx = run_shards(_shard, shards, seed=seed, label=PROP)
    ev = ctx.counters['evaluations']
    return Result(
        ctx, level='exploration',
        rule=('every generic pair of the C02 families, every notebook pair of the C01 space, every decision list of the depth-1 x depth-1 merge '
              'space; each produced diff (top-level, and local/remote/custom/similar_insert inside decisions) is judged; non-trivial = inputs differ'),
        evaluations=ev, distinct_nontrivial=ctx.counters['nontrivial'],
        states=nstates + sum(len(v) for v in fam.values()), transitions=ev, traces_validated=ev, exhaustive=True,
        bounds=dict(info, tier=tier, generic_families={k: len(v) for k, v in sorted(fam.items())}),
        assumptions=['zero-length ranges / empty valuelists are counted but not judged (the statement does not forbid them)',
                     'similar_insert is judged relative to the single inserted local item (its key indexes the original insert list)'],
    )


def replay(case, ctx):
    import nbdime
    isolate.setup_env()
    isolate.install_id_counter()
    if 'a' in case:
        judge(ctx, case['a'], nbdime.diff(case['a'], case['b']), 'generic', case)
    elif 'A' in case:
        judge(ctx, case['A'], nbdime.diff_notebooks(U.to_node(case['A']), U.to_node(case['B'])), 'notebook', case)
    else:
        decs, exc = M.run_decide(case['base'], case['local'], case['remote'], tuple(case['config']), case.get('toolset', 'git'))
        if exc is None:
            judge_decisions(ctx, case['base'], U.plain(decs), case)
