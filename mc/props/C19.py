"""C19 - option resolution follows flag > most specific config section > default.

Space : 11 entry points x each documented option x every subset of the sections documented to apply to that entry
        point setting it to (pairwise distinct where the value domain allows) values x placement of those sections
        over the configuration directories (working directory, first and second entry of jupyter_config_path(),
        including the same key in two directories) x flag given / not given; `Ignore` mappings with overlapping and
        disjoint paths in up to three sections and two directories.  Real JSON files, the real build_config, and the
        namespace produced by the entry point's own parser under the program name its console script gives it.
Oracle: executable model of the documented rule (docs/source/config.rst): the flag if given, else the value from the
        first section in specificity order (own, git-specific, diff/merge, web tool, web, global) that is documented
        to apply and sets the option after merging files by directory priority (working directory first), else the
        built-in default; Ignore merged path by path.
"""
import io
import itertools
import json
import os
import shutil
import sys
import tempfile

from .. import isolate
from ..engine import Ctx, canon, run_shards, chunked, time_limit, HarnessError
from ..findings import exc_fingerprint
from ..run import Result

PROP = 'C19'
STUBS = os.path.join(os.path.dirname(os.path.dirname(os.path.abspath(__file__))), 'stubs')

# ---- the documented rule (docs/source/config.rst "Sections") --------------------------------------------------------
OWN = {'nbdiff': 'NbDiff', 'nbdiff-web': 'NbDiffWeb', 'nbmerge': 'NbMerge', 'nbmerge-web': 'NbMergeWeb', 'nbshow': 'NbShow', 'server': 'Server',
       'extension': 'Extension', 'git-nbdiffdriver': 'NbDiffDriver', 'git-nbdifftool': 'NbDiffTool', 'git-nbmergedriver': 'NbMergeDriver',
       'git-nbmergetool': 'NbMergeTool'}
APPLIES = {
    'Web': {'Server', 'NbDiffWeb', 'NbMergeWeb', 'NbDiffTool', 'NbMergeTool'},
    'WebTool': {'NbDiffTool', 'NbMergeTool'},
    'Diff': {'NbDiff', 'NbDiffWeb', 'NbDiffDriver', 'NbDiffTool', 'Extension'},
    'Merge': {'NbMerge', 'NbMergeWeb', 'NbMergeDriver', 'NbMergeTool'},
    'GitDiff': {'NbDiff', 'NbDiffWeb', 'NbDiffDriver', 'NbDiffTool', 'Extension'},
    'GitMerge': {'NbMergeDriver', 'NbMergeTool'},
    'Global': set(OWN.values()),
}
# specificity, most specific first (statement: own, git-specific, diff or merge, web-tool, web, global)
ORDER = ['<own>', 'GitDiff', 'GitMerge', 'Diff', 'Merge', 'WebTool', 'Web', 'Global']

WEB_OPTS = ['port', 'ip', 'base_url', 'browser', 'persist', 'workdirectory']
IGN_OPTS = ['sources', 'outputs', 'attachments', 'metadata', 'details']
DIFF_OPTS = IGN_OPTS + ['color_words']
MERGE_OPTS = DIFF_OPTS + ['merge_strategy', 'input_strategy', 'output_strategy', 'ignore_transients']
ENTRY_OPTS = {
    'nbdiff': DIFF_OPTS, 'nbdiff-web': DIFF_OPTS + WEB_OPTS, 'nbmerge': MERGE_OPTS, 'nbmerge-web': MERGE_OPTS + WEB_OPTS + ['show_base'],
    'nbshow': IGN_OPTS, 'server': WEB_OPTS, 'extension': DIFF_OPTS, 'git-nbdiffdriver': DIFF_OPTS, 'git-nbdifftool': DIFF_OPTS + WEB_OPTS,
    'git-nbmergedriver': MERGE_OPTS, 'git-nbmergetool': MERGE_OPTS + WEB_OPTS,
}
# which sections define which option (a section can only set options it has)
SECTION_OPTS = {
    'Web': set(WEB_OPTS), 'WebTool': set(WEB_OPTS), 'Diff': set(DIFF_OPTS), 'GitDiff': set(DIFF_OPTS), 'Merge': set(MERGE_OPTS), 'GitMerge': set(MERGE_OPTS),
    'Global': {'log_level'},
}
DEFAULTS = {'port': 0, 'ip': '127.0.0.1', 'base_url': '/', 'browser': None, 'persist': False, 'sources': None, 'outputs': None, 'attachments': None,
            'metadata': None, 'details': None, 'color_words': False, 'merge_strategy': 'inline', 'input_strategy': None, 'output_strategy': None,
            'ignore_transients': True, 'show_base': True, 'log_level': 'INFO'}
ENTRY_DEFAULTS = {('server', 'port'): 8888}
DOMAIN = {
    'port': [1001, 1002, 1003, 1004, 1005, 1006, 1007], 'ip': ['127.0.0.%d' % i for i in range(2, 9)], 'base_url': ['/u%d/' % i for i in range(1, 8)],
    'browser': ['browser%d' % i for i in range(1, 8)], 'persist': [True, False], 'workdirectory': ['/wd%d' % i for i in range(1, 8)],
    'sources': [False, True], 'outputs': [False, True], 'attachments': [False, True], 'metadata': [False, True], 'details': [False, True],
    'color_words': [True, False], 'merge_strategy': ['use-base', 'use-local', 'use-remote', 'inline'],
    'input_strategy': ['use-base', 'use-local', 'use-remote', 'inline'], 'output_strategy': ['remove', 'clear-all', 'use-base', 'use-local', 'use-remote', 'inline'],
    'ignore_transients': [False, True], 'show_base': [False, True], 'log_level': ['DEBUG', 'WARN', 'ERROR', 'CRITICAL'],
}
FLAGS = {
    'port': lambda v: ['-p', str(v)], 'ip': lambda v: ['--ip', v], 'base_url': lambda v: ['--base-url', v], 'browser': lambda v: ['-b', v],
    'persist': lambda v: ['--persist'] if v else None, 'workdirectory': lambda v: ['-w', v],
    'sources': lambda v: ['--sources' if v else '--ignore-sources'], 'outputs': lambda v: ['--outputs' if v else '--ignore-outputs'],
    'attachments': lambda v: ['--attachments' if v else '--ignore-attachments'], 'metadata': lambda v: ['--metadata' if v else '--ignore-metadata'],
    'details': lambda v: ['--details' if v else '--ignore-details'], 'color_words': lambda v: ['--color-words'] if v else None,
    'merge_strategy': lambda v: ['--merge-strategy', v], 'input_strategy': lambda v: ['--input-strategy', v], 'output_strategy': lambda v: ['--output-strategy', v],
    'ignore_transients': lambda v: None if v else ['--no-ignore-transients'], 'show_base': lambda v: None if v else ['--no-base'],
    'log_level': lambda v: ['--log-level', v],
}
NO_CLI_COLOR_WORDS = {'nbdiff-web', 'nbmerge', 'nbmerge-web', 'git-nbdifftool', 'git-nbmergedriver', 'git-nbmergetool', 'extension'}


def sections_for(entry, opt):
    """Sections documented to apply to this entry point that can hold this option, most specific first."""
    own = OWN[entry]
    out = []
    for s in ORDER:
        if s == '<own>':
            if opt != 'log_level':          # log_level is documented for the Global section only
                out.append(own)
        elif own in APPLIES[s] and opt in SECTION_OPTS[s]:
            out.append(s)
    return out


def rule(entry, opt, dirs_content, flag_value):
    """dirs_content: list (highest priority first) of {section: {opt: value}}."""
    if flag_value is not None:
        return flag_value[0]
    for sec in sections_for(entry, opt):
        for d in dirs_content:
            if sec in d and opt in d[sec]:
                return d[sec][opt]
    return ENTRY_DEFAULTS.get((entry, opt), DEFAULTS.get(opt))


# ---- observing the implementation ------------------------------------------------------------------------------------

def split_generic(argv):
    """Generic flags (--log-level) belong before the sub-command of the git drivers and tools."""
    if argv and argv[0] == '--log-level':
        return argv[:2], argv[2:]
    return [], argv


def observe_namespace(entry, argv):
    """Namespace the entry point's own parser produces under its console-script name."""
    saved_argv = sys.argv
    so, se = sys.stdout, sys.stderr
    sys.stdout, sys.stderr = io.StringIO(), io.StringIO()
    isolate.reset_globals()
    try:
        if entry == 'nbdiff':
            from nbdime import nbdiffapp
            sys.argv = ['nbdiff']
            return vars(nbdiffapp._build_arg_parser().parse_args(argv + ['a.ipynb', 'b.ipynb']))
        if entry == 'nbshow':
            from nbdime import nbshowapp
            sys.argv = ['nbshow']
            return vars(nbshowapp._build_arg_parser().parse_args(argv + ['a.ipynb']))
        if entry == 'nbmerge':
            from nbdime import nbmergeapp
            sys.argv = ['nbmerge']
            return vars(nbmergeapp._build_arg_parser().parse_args(argv + ['b.ipynb', 'l.ipynb', 'r.ipynb']))
        if entry == 'nbdiff-web':
            from nbdime.webapp import nbdiffweb
            sys.argv = ['nbdiff-web']
            return vars(nbdiffweb.build_arg_parser().parse_args(argv + ['a.ipynb', 'b.ipynb']))
        if entry == 'nbmerge-web':
            from nbdime.webapp import nbmergeweb
            sys.argv = ['nbmerge-web']
            return vars(nbmergeweb.build_arg_parser().parse_args(argv + ['b.ipynb', 'l.ipynb', 'r.ipynb']))
        if entry == 'server':
            # `nbdime server ...`: console script nbdime -> main_dispatch -> nbdimeserver.main
            from nbdime.webapp import nbdimeserver
            from nbdime import __main__ as nm
            sys.argv = ['nbdime', 'server'] + argv
            got = {}
            orig = nbdimeserver.main_server

            def fake(**kw):
                got.update(kw)
                return 0
            nbdimeserver.main_server = fake
            try:
                nm.main_dispatch(['server'] + argv)
            finally:
                nbdimeserver.main_server = orig
            return {'port': got.get('port'), 'ip': got.get('ip'), 'base_url': got.get('base_url'), 'workdirectory': got.get('cwd'),
                    'browser': '<not passed on>', 'persist': '<not passed on>', 'log_level': '<not passed on>'}
        if entry == 'extension':
            from nbdime.config import build_config
            return dict(build_config('extension'))
        if entry == 'git-nbdiffdriver':
            from nbdime.vcs.git import diffdriver
            sys.argv = ['git-nbdiffdriver']
            g, rest = split_generic(argv)
            return vars(diffdriver._build_arg_parser().parse_args(g + ['diff'] + rest + ['a.ipynb', 'a.ipynb', 'sha', '100644', 'b.ipynb', 'sha2', '100644']))
        if entry == 'git-nbdifftool':
            from nbdime.vcs.git import difftool
            sys.argv = ['git-nbdifftool']
            got = {}
            orig = difftool.show_diff
            difftool.show_diff = lambda before, after, opts: got.update(vars(opts)) or 0
            try:
                g, rest = split_generic(argv)
                difftool.main(g + ['diff'] + rest + ['a.ipynb', 'b.ipynb', 'a.ipynb'])
            finally:
                difftool.show_diff = orig
            return got
        if entry == 'git-nbmergedriver':
            from nbdime.vcs.git import mergedriver
            from nbdime import nbmergeapp
            sys.argv = ['git-nbmergedriver']
            got = {}
            orig = nbmergeapp.main_merge
            nbmergeapp.main_merge = lambda opts: got.update(vars(opts)) or 0
            try:
                g, rest = split_generic(argv)
                mergedriver.main(g + ['merge'] + rest + ['b.ipynb', 'l.ipynb', 'r.ipynb', '7', 'p.ipynb'])
            finally:
                nbmergeapp.main_merge = orig
            return got
        if entry == 'git-nbmergetool':
            from nbdime.vcs.git import mergetool
            from nbdime.webapp import nbmergetool
            sys.argv = ['git-nbmergetool']
            got = {}
            orig = nbmergetool.main_parsed
            nbmergetool.main_parsed = lambda opts: got.update(vars(opts)) or 0
            try:
                g, rest = split_generic(argv)
                mergetool.main(g + ['merge'] + rest + ['b.ipynb', 'l.ipynb', 'r.ipynb', 'm.ipynb'])
            finally:
                nbmergetool.main_parsed = orig
            return got
        raise ValueError(entry)
    finally:
        sys.argv = saved_argv
        sys.stdout, sys.stderr = so, se
        isolate.reset_globals()


# ---- case generation ---------------------------------------------------------------------------------------------------

def placements(nsec, tier):
    """Ways of spreading the chosen sections over the directories: tuple dir index per section (0 = cwd)."""
    if nsec == 0:
        return [()]
    out = [tuple(0 for _ in range(nsec)), tuple(i % 2 for i in range(nsec)), tuple(1 for _ in range(nsec))]
    if True:
        out = list(itertools.product(range(3), repeat=nsec)) if nsec <= (4 if tier == 'thorough' else 3) else out + [tuple((i + 1) % 3 for i in range(nsec)), tuple(2 - (i % 3) for i in range(nsec))]
    seen, res = set(), []
    for p in out:
        if p not in seen:
            seen.add(p)
            res.append(p)
    return res


def cases_for(entry, opt, tier):
    secs = sections_for(entry, opt)
    dom = DOMAIN[opt]
    for r in range(len(secs) + 1):
        for chosen in itertools.combinations(range(len(secs)), r):
            values = {}
            for rank, si in enumerate(chosen):
                # adjacent chosen sections always get different values; all distinct when the domain is large enough
                values[secs[si]] = dom[(si + 1) % len(dom)] if len(dom) > len(secs) else dom[rank % len(dom)]
            for pl in placements(len(chosen), tier):
                for flag in (False, True):
                    yield chosen, values, pl, flag, None
                # the flag given with the very value that is the built-in default (it must still beat a section that sets something else)
                if chosen and pl == tuple(0 for _ in chosen):
                    yield chosen, values, pl, 'default', None
            # the same (section, option) in two directories with different values: the higher-priority directory must win
            if chosen:
                top = secs[chosen[0]]
                other = [v for v in dom if v != values[top]]
                if other:
                    yield chosen, values, tuple(0 for _ in chosen), False, (top, other[0])


def write_dirs(dirs, secs, chosen, values, pl, opt, shadow):
    content = [dict() for _ in dirs]
    for k, si in enumerate(chosen):
        s = secs[si]
        content[pl[k]].setdefault(s, {})[opt] = values[s]
    if shadow:
        s, v = shadow
        content[1].setdefault(s, {})[opt] = v      # lower-priority directory holds another value for the same key
    for d, c in zip(dirs, content):
        p = os.path.join(d, 'nbdime_config.json')
        if c:
            with open(p, 'w') as f:
                json.dump(c, f)
        elif os.path.exists(p):
            os.unlink(p)
    return content


def classify(entry, opt, secs, chosen, values, content, got, want, flag):
    """Classifier of a disagreement: which section the rule selected and whether the implementation used another one."""
    if flag:
        return 'flag-ignored'
    winner = None
    for sec in secs:
        if any(sec in d and opt in d[sec] for d in content):
            winner = sec
            break
    if winner is None:
        return 'default'
    own = OWN[entry]
    label = 'own' if winner == own else winner
    if entry == 'server':
        return 'server|section:%s' % label
    return 'section:%s' % label


_G = {}


def _shard(sh, ctx):
    entry, opts = sh
    tier = _G['tier']
    root = tempfile.mkdtemp(prefix='c19-', dir=isolate.scratch_root())
    try:
        cwd = os.path.join(root, 'cwd')
        d1 = os.path.join(root, 'extra')
        d2 = os.path.join(root, 'user')
        for d in (cwd, d1, d2):
            os.makedirs(d)
        os.environ['JUPYTER_CONFIG_PATH'] = d1
        os.environ['JUPYTER_CONFIG_DIR'] = d2
        os.chdir(cwd)
        from jupyter_core.paths import jupyter_config_path
        jp = jupyter_config_path()
        if d1 not in jp or d2 not in jp or jp.index(d1) > jp.index(d2):
            raise HarnessError('unexpected jupyter_config_path order: %r' % jp[:4])
        for other in jp:
            if other not in (d1, d2) and os.path.exists(os.path.join(other, 'nbdime_config.json')):
                raise HarnessError('foreign nbdime_config.json in %s' % other)
        dirs = [cwd, d1, d2]
        for opt in opts:
            secs = sections_for(entry, opt)
            for chosen, values, pl, flag, shadow in cases_for(entry, opt, tier):
                ctx.count('evaluations')
                if chosen:
                    ctx.count('nontrivial')
                content = write_dirs(dirs, secs, chosen, values, pl, opt, shadow)
                flag_value = None
                argv = []
                if flag:
                    if entry == 'extension' or (opt == 'color_words' and entry in NO_CLI_COLOR_WORDS):
                        continue
                    # a flag value different from every configured value (or, in the 'default' mode, the built-in default itself)
                    cand = [v for v in DOMAIN[opt] if v not in values.values()] or DOMAIN[opt]
                    if flag == 'default':
                        dv = ENTRY_DEFAULTS.get((entry, opt), DEFAULTS.get(opt))
                        if dv is None or dv in values.values():
                            continue
                        cand = [dv]
                    for v in cand:
                        a = FLAGS[opt](v)
                        if a is not None:
                            argv, flag_value = a, (v,)
                            break
                    if flag_value is None:
                        continue
                want = rule(entry, opt, content, flag_value)
                case = {'entry': entry, 'option': opt, 'sections': {secs[si]: values[secs[si]] for si in chosen},
                        'placement': list(pl), 'shadow': list(shadow) if shadow else None, 'flag': argv, 'expected': want}
                try:
                    import logging
                    logging.getLogger('nbdime').setLevel(logging.NOTSET)
                    with time_limit(30):
                        ns = observe_namespace(entry, argv)
                    if opt == 'log_level' and ns.get('log_level') != '<not passed on>':
                        # the effective value is the level the nbdime logger ends up with (sub-parsers re-declare the option)
                        lvl = logging.getLevelName(logging.getLogger('nbdime').level)
                        ns = dict(ns)
                        ns['log_level'] = {'WARNING': 'WARN', 'NOTSET': 'INFO'}.get(lvl, lvl)
                except SystemExit as e:
                    ctx.violation('%s|PARSER-EXIT|%s|%s' % (PROP, entry, opt), 'parser exited with %r for %r' % (e.code, argv), case)
                    continue
                except Exception as e:
                    ctx.violation(exc_fingerprint(PROP, e, 'EXC|' + entry), 'building the namespace raised %s: %s' % (type(e).__name__, e), case)
                    continue
                if entry == 'extension' and opt not in ns:
                    ns = dict(ns)
                    ns[opt] = DEFAULTS[opt]     # build_config drops options whose value is None
                if opt not in ns:
                    ctx.violation('%s|OPTION-MISSING|%s|%s' % (PROP, entry, opt), 'namespace of %s has no %s' % (entry, opt), case)
                    continue
                got = ns[opt]
                if got == '<not passed on>':
                    ctx.count('not_observable(option never reaches the server)')
                    continue
                if opt == 'workdirectory' and want is None:
                    continue      # default is the cwd at start-up
                if canon(got) != canon(want):
                    cls = classify(entry, opt, secs, chosen, values, content, got, want, flag)
                    if shadow:
                        cls += '|directory-priority'
                    ctx.violation('%s|RULE|%s|%s' % (PROP, cls, 'option:' + opt if cls in ('default', 'flag-ignored') else 'any-option'),
                                  '%s: %s resolves to %r, the documented rule gives %r' % (entry, opt, got, want), dict(case, observed=got))
            ctx.sample({'entry': entry, 'option': opt, 'sections_in_order': secs}, rank=(entry, opt))
        # ---- one section split over two directories: options set only in the lower-priority copy must still apply ----
        split_section_cases(ctx, entry, opts, dirs)
        # ---- Ignore mappings ----
        ignore_cases(ctx, entry, dirs)
    finally:
        os.chdir('/')
        shutil.rmtree(root, ignore_errors=True)


def split_section_cases(ctx, entry, opts, dirs):
    allopts = [o for o in ENTRY_OPTS[entry] if o != 'workdirectory']
    for o1 in opts:
        if o1 == 'log_level' or o1 == 'workdirectory':
            continue
        for sec in sections_for(entry, o1):
            for o2 in allopts:
                if o2 == o1 or sec not in sections_for(entry, o2):
                    continue
                for hi, lo in ((0, 1), (1, 2), (0, 2)):
                    content = [dict() for _ in dirs]
                    v1, v2 = DOMAIN[o1][0], DOMAIN[o2][0]
                    content[hi][sec] = {o1: v1}
                    content[lo][sec] = {o2: v2}
                    for d, c in zip(dirs, content):
                        pth = os.path.join(d, 'nbdime_config.json')
                        if c:
                            with open(pth, 'w') as f:
                                json.dump(c, f)
                        elif os.path.exists(pth):
                            os.unlink(pth)
                    ctx.count('evaluations')
                    ctx.count('nontrivial')
                    ctx.count('split_section_cases')
                    case = {'entry': entry, 'option': o2, 'split_section': sec, 'higher_dir_sets': {o1: v1}, 'lower_dir_sets': {o2: v2}, 'dirs': [hi, lo]}
                    try:
                        ns = observe_namespace(entry, [])
                    except (SystemExit, Exception) as e:
                        ctx.violation('%s|SPLIT-EXC|%s|%s' % (PROP, entry, type(e).__name__), 'namespace construction failed: %s' % e, case)
                        continue
                    if entry == 'extension':
                        ns = dict(ns)
                        for o in (o1, o2):
                            ns.setdefault(o, DEFAULTS[o])
                    for o, v in ((o1, v1), (o2, v2)):
                        got = ns.get(o, '<missing>')
                        if got == '<not passed on>':
                            continue
                        want = rule(entry, o, content, None)
                        if canon(got) != canon(want):
                            cls = 'server' if entry == 'server' else ('lower-directory-option-lost' if o == o2 else 'higher-directory-option-lost')
                            ctx.violation('%s|SPLIT-SECTION|%s' % (PROP, cls), '%s: %s resolves to %r, rule gives %r when section %s is split over two files' % (entry, o, got, want, sec),
                                          dict(case, observed=got))
    for d in dirs:
        pth = os.path.join(d, 'nbdime_config.json')
        if os.path.exists(pth):
            os.unlink(pth)


def ignore_cases(ctx, entry, dirs):
    from nbdime.config import build_config
    if entry in ('server',):
        return
    secs = [s for s in sections_for(entry, 'sources')]     # sections that can hold Ignore = those with the ignorables
    if entry == 'nbshow':
        secs = [OWN[entry]]
    paths = ['/cells/*/outputs', '/cells/*/metadata', '/metadata']
    vals = [True, ['collapsed'], False, ['tags', 'x']]
    for r in range(1, min(3, len(secs)) + 1):
        for chosen in itertools.combinations(range(len(secs)), r):
            for variant in range(3):
                content = [dict() for _ in dirs]
                want = {}
                maps = {}
                for rank, si in enumerate(chosen):
                    m = {}
                    for pi, p in enumerate(paths):
                        if (pi + rank + variant) % 3 != 0:      # overlapping and disjoint paths
                            m[p] = vals[(pi + rank * 2 + variant) % len(vals)]
                    maps[secs[si]] = m
                    content[(rank + variant) % 2].setdefault(secs[si], {})['Ignore'] = m
                for si in reversed(chosen):                     # least specific first, most specific overrides per path
                    want.update(maps[secs[si]])
                for d, c in zip(dirs, content):
                    pth = os.path.join(d, 'nbdime_config.json')
                    if c:
                        with open(pth, 'w') as f:
                            json.dump(c, f)
                    elif os.path.exists(pth):
                        os.unlink(pth)
                ctx.count('evaluations')
                ctx.count('nontrivial')
                ctx.count('ignore_mapping_cases')
                case = {'entry': entry, 'option': 'Ignore', 'sections': maps, 'expected': want}
                try:
                    got = build_config(entry).get('Ignore', {})
                except Exception as e:
                    ctx.violation(exc_fingerprint(PROP, e, 'EXC|Ignore|' + entry), 'build_config raised %s: %s' % (type(e).__name__, e), case)
                    continue
                if canon(got) != canon(want):
                    ctx.violation('%s|IGNORE-MERGE|%s' % (PROP, 'own' if len(chosen) == 1 and secs[chosen[0]] == OWN[entry] else 'sections'),
                                  '%s: Ignore resolves to %r, path-by-path merge gives %r' % (entry, got, want), dict(case, observed=got))
                    continue
                # two-step histories in one process: a full dump (what --config prints) for this command must not change
                # what any other command resolves afterwards, compared with that command's own resolution before the dump
                others = [e for e in OWN if e not in (entry, 'server')]
                try:
                    before = {e: canon(build_config(e).get('Ignore', {})) for e in others}
                    build_config(entry, True)
                    after = {e: canon(build_config(e).get('Ignore', {})) for e in others}
                except Exception as e:
                    ctx.violation(exc_fingerprint(PROP, e, 'EXC|Ignore-history|' + entry), 'build_config raised %s: %s' % (type(e).__name__, e), case)
                    continue
                ctx.count('evaluations', len(others))
                ctx.count('ignore_history_cases', len(others))
                for e in others:
                    if before[e] != after[e]:
                        ctx.violation('%s|IGNORE-HISTORY|dump-then-resolve' % PROP,
                                      'after a full dump for %s, %s resolves Ignore to %s; before the dump it was %s' % (entry, e, after[e], before[e]),
                                      dict(case, other=e, before=before[e], after=after[e]))
                        break
    # one section's Ignore mapping split over two directories: merged path by path, higher directory wins per path
    for sec in secs:
        content = [dict() for _ in dirs]
        content[0][sec] = {'Ignore': {'/cells/*/outputs': True, '/metadata': ['a']}}
        content[1][sec] = {'Ignore': {'/metadata': ['b'], '/cells/*/metadata': ['tags']}}
        want = {'/cells/*/outputs': True, '/metadata': ['a'], '/cells/*/metadata': ['tags']}
        for d, c in zip(dirs, content):
            pth = os.path.join(d, 'nbdime_config.json')
            if c:
                with open(pth, 'w') as f:
                    json.dump(c, f)
            elif os.path.exists(pth):
                os.unlink(pth)
        ctx.count('evaluations')
        ctx.count('nontrivial')
        ctx.count('ignore_mapping_cases')
        case = {'entry': entry, 'option': 'Ignore', 'sections': {sec: 'split over two directories'}, 'expected': want}
        try:
            got = build_config(entry).get('Ignore', {})
        except Exception as e:
            ctx.violation(exc_fingerprint(PROP, e, 'EXC|Ignore|' + entry), 'build_config raised %s: %s' % (type(e).__name__, e), case)
            continue
        if canon(got) != canon(want):
            ctx.violation('%s|IGNORE-MERGE|split-section' % PROP, '%s: Ignore resolves to %r, path-by-path merge gives %r' % (entry, got, want), dict(case, observed=got))
    for d in dirs:
        pth = os.path.join(d, 'nbdime_config.json')
        if os.path.exists(pth):
            os.unlink(pth)


def controls():
    c = [{'NbDiffTool': {}, 'GitDiff': {'color_words': True}}, {'Diff': {'color_words': False}, 'NbDiffTool': {'port': 5}}]
    if rule('git-nbdifftool', 'color_words', c, None) is not True or rule('git-nbdifftool', 'port', c, None) != 5 or rule('git-nbdifftool', 'port', c, (9,)) != 9:
        raise HarnessError('C19 control: rule evaluator')
    if rule('server', 'port', [{}], None) != 8888 or rule('server', 'port', [{'Web': {'port': 7}}], None) != 7:
        raise HarnessError('C19 control: server defaults')
    if sections_for('git-nbmergetool', 'port') != ['NbMergeTool', 'WebTool', 'Web'] or sections_for('nbdiff', 'sources') != ['NbDiff', 'GitDiff', 'Diff']:
        raise HarnessError('C19 control: section order %r' % (sections_for('git-nbmergetool', 'port'),))


def run(tier, seed):
    isolate.setup_env()
    if STUBS not in sys.path:
        sys.path.insert(0, STUBS)
    _G['tier'] = tier
    shards = []
    for entry in sorted(ENTRY_OPTS):
        opts = list(ENTRY_OPTS[entry]) + (['log_level'] if entry != 'extension' else [])
        for ch in chunked(opts, 3):
            shards.append((entry, ch))
    ctx = run_shards(_shard, shards, seed=seed, label=PROP)
    ev = ctx.counters['evaluations']
    return Result(
        ctx, level='exploration',
        rule=('per entry point and documented option: every subset of the applicable sections x placements over the configuration directories x flag '
              'given or not, plus same key in two directories, plus Ignore mappings in up to three sections; each case writes real nbdime_config.json '
              'files and observes the entry point\'s own parser; non-trivial = at least one section sets the option'),
        evaluations=ev, distinct_nontrivial=ctx.counters['nontrivial'],
        states=sum(len(v) for v in ENTRY_OPTS.values()), transitions=ev, traces_validated=ev, exhaustive=True,
        bounds={'tier': tier, 'entry_points': sorted(ENTRY_OPTS), 'options': {k: v for k, v in ENTRY_OPTS.items()}},
        assumptions=['section applicability table taken from docs/source/config.rst; specificity order own > GitDiff/GitMerge > Diff/Merge > WebTool > Web > Global',
                     'directory priority read back from jupyter_config_path() (cwd first); values are concrete (null is not enumerated)',
                     'the Global section documents only log_level; options not held by a section cannot be set there'],
    )


def replay(case, ctx):
    isolate.setup_env()
    if STUBS not in sys.path:
        sys.path.insert(0, STUBS)
    _G['tier'] = 'thorough'
    entry = case['entry']
    if case['option'] == 'Ignore':
        root = tempfile.mkdtemp(prefix='c19-', dir=isolate.scratch_root())
        dirs = []
        for n in ('cwd', 'extra', 'user'):
            d = os.path.join(root, n)
            os.makedirs(d)
            dirs.append(d)
        os.environ['JUPYTER_CONFIG_PATH'] = dirs[1]
        os.environ['JUPYTER_CONFIG_DIR'] = dirs[2]
        os.chdir(dirs[0])
        ignore_cases(ctx, entry, dirs)
        os.chdir('/')
        return
    _shard((entry, [case['option']]), ctx)
