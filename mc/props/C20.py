"""C20 - web API agrees with the library and writes only where told at start-up.

Explicit-state search over request histories against nbdime's real tornado application, started through
its real entry points (nbdime server / nbdifftool / nbmergetool / nbmergeweb) in a child process forked
from a parent that has imported the web stack but never served a request.

State  : (server mode, request history); every history is executed on a freshly started server and a fresh
         copy of the scratch tree (a live server cannot be copied).
Events : ~30 requests: valid diff / merge / store, malformed JSON, missing keys, non-string arguments,
         non-notebook and unknown files, '..' and absolute paths, store bodies naming other paths, store with a
         non-object payload, closetool with / without exit code, unknown and (un)prefixed routes, page GETs.
Oracle : (i) diff: ref_patch(body.base, body.diff) == remote file; (ii) merge: decisions == library decisions
         computed in a fresh interpreter; (iii) the tree changes only in the configured output file and only
         after a successful store, whose content is the submitted notebook; store without output file -> 400;
         (iv) closetool honoured (200 + process exit with the code) iff closable, else 400 and still serving;
         (v) malformed / unreadable requests: status >= 400, tree byte-identical; (vi) every response equals
         the response a fresh server gives to the same request as its first request on the current tree.
"""
import hashlib
import http.client
import io
import json
import os
import select
import shutil
import signal
import socket
import subprocess
import sys
import tempfile
import time

from .. import isolate, universe_nb as U
from ..engine import Ctx, canon, run_shards, chunked, HarnessError
from ..oracles.refpatch import ref_patch, RefPatchError
from ..run import Result

PROP = 'C20'
STUBS = os.path.join(os.path.dirname(os.path.dirname(os.path.abspath(__file__))), 'stubs')


# ---- scratch tree ---------------------------------------------------------------------------------------

def notebooks():
    S = U.seeds()
    seed = S['S45']
    d1 = {l: n for l, t, n in U.depth1(seed)}
    return {'a.ipynb': seed, 'b.ipynb': d1['src@0:repl1:a'], 'c.ipynb': d1['src@0:repl1:b'], 'd.ipynb': d1['out@0:append:Oerr'],
            'sj.ipynb': S['Sjson']}


def make_tree(root):
    work = os.path.join(root, 'work')
    os.makedirs(work)
    os.makedirs(os.path.join(root, 'sentinel'))
    for name, nb in notebooks().items():
        with open(os.path.join(work, name), 'w', encoding='utf8') as f:
            json.dump(nb, f, indent=1)
    with open(os.path.join(work, 'out.ipynb'), 'w', encoding='utf8') as f:
        json.dump(notebooks()['a.ipynb'], f, indent=1)
    with open(os.path.join(work, 'notes.txt'), 'w') as f:
        f.write('not a notebook\n')
    with open(os.path.join(work, 'empty.ipynb'), 'w') as f:
        pass
    # the served directory is a git repository with two revisions of g.ipynb (for `nbdiff-web <ref> <ref>`)
    def git(*a):
        subprocess.run(['git'] + list(a), cwd=work, check=True, stdout=subprocess.DEVNULL, stderr=subprocess.DEVNULL)
    with open(os.path.join(work, 'g.ipynb'), 'w', encoding='utf8') as f:
        json.dump(notebooks()['a.ipynb'], f, indent=1)
    git('init', '-q', '-b', 'main')
    git('add', 'g.ipynb')
    git('commit', '-q', '-m', 'one')
    with open(os.path.join(work, 'g.ipynb'), 'w', encoding='utf8') as f:
        json.dump(notebooks()['d.ipynb'], f, indent=1)
    git('commit', '-q', '-am', 'two')
    with open(os.path.join(root, 'sentinel', 'secret.ipynb'), 'w', encoding='utf8') as f:
        json.dump(notebooks()['b.ipynb'], f)
    with open(os.path.join(root, 'sentinel', 'keep.txt'), 'w') as f:
        f.write('must never change\n')


def snapshot(root):
    out = {}
    for dp, dn, fn in os.walk(root):
        for n in fn:
            p = os.path.join(dp, n)
            with open(p, 'rb') as f:
                out[os.path.relpath(p, root)] = f.read()
    return out


def tree_hash(snap):
    h = hashlib.sha1()
    for k in sorted(snap):
        h.update(k.encode())
        h.update(b'\0')
        h.update(snap[k])
        h.update(b'\0')
    return h.hexdigest()[:16]


# ---- server modes -----------------------------------------------------------------------------------------

MODES = {
    'plain':            dict(entry='nbdimeserver', argv=[], closable=False, output=None, prefix='', tool=None),
    'plain-prefix':     dict(entry='nbdimeserver', argv=['--base-url', '/pfx/'], closable=False, output=None, prefix='/pfx', tool=None),
    'difftool':         dict(entry='nbdifftool', argv=['a.ipynb', 'b.ipynb'], closable=True, output=None, prefix='', tool=('a.ipynb', None, 'b.ipynb')),
    'mergetool':        dict(entry='nbmergetool', argv=['a.ipynb', 'b.ipynb', 'c.ipynb', 'out.ipynb'], closable=True, output='out.ipynb', prefix='',
                             tool=('a.ipynb', 'b.ipynb', 'c.ipynb')),
    'mergeweb-out':     dict(entry='nbmergeweb', argv=['a.ipynb', 'b.ipynb', 'c.ipynb', '--out', 'out.ipynb'], closable=True, output='out.ipynb', prefix='', tool=None),
    'mergeweb-noout-persist': dict(entry='nbmergeweb', argv=['a.ipynb', 'b.ipynb', 'c.ipynb', '--persist'], closable=False, output=None, prefix='', tool=None),
    'mergetool-prefix-persist': dict(entry='nbmergetool', argv=['a.ipynb', 'b.ipynb', 'c.ipynb', 'out.ipynb', '--base-url', '/pfx/', '--persist'],
                                     closable=False, output='out.ipynb', prefix='/pfx', tool=('a.ipynb', 'b.ipynb', 'c.ipynb')),
    'diffweb-gitrefs':  dict(entry='nbdiffweb', argv=['HEAD~1', 'HEAD', '-p', '0'], closable=True, output=None, prefix='', tool=('g.ipynb', None, 'g.ipynb'), pinned_diff=True),
    'difftool-persist': dict(entry='nbdifftool', argv=['a.ipynb', 'd.ipynb', '--persist'], closable=False, output=None, prefix='', tool=('a.ipynb', None, 'd.ipynb')),
}


def free_port():
    s = socket.socket()
    s.bind(('127.0.0.1', 0))
    p = s.getsockname()[1]
    s.close()
    return p


class Server(object):
    def __init__(self, mode, root):
        self.mode = mode
        self.m = MODES[mode]
        self.root = root
        self.pid = None
        self.port = None
        self.exit_status = None

    def start(self):
        m = self.m
        argv = list(m['argv'])
        port = None
        if m['entry'] == 'nbdimeserver':
            argv += ['-p', '0']
        r, w = os.pipe()
        pid = os.fork()
        if pid == 0:
            try:
                os.close(r)
                try:
                    import ctypes
                    ctypes.CDLL('libc.so.6', use_errno=True).prctl(1, signal.SIGKILL)   # PR_SET_PDEATHSIG: never outlive the worker
                except Exception:
                    pass
                devnull = os.open(os.devnull, os.O_RDWR)
                os.dup2(devnull, 0)
                os.dup2(devnull, 1)
                os.dup2(devnull, 2)
                os.chdir(os.path.join(self.root, 'work'))
                import importlib
                mod = importlib.import_module('nbdime.webapp.' + m['entry'])

                def browse(port, **kw):
                    os.write(w, ('%d\n' % port).encode())
                if hasattr(mod, 'browse_util'):
                    mod.browse_util = browse
                elif hasattr(mod, 'browse'):
                    mod.browse = browse
                else:
                    # `nbdime server` passes no on_port callback: supply one (port 0 = chosen by the kernel, no races between workers)
                    orig_main_server = mod.main_server

                    def main_server(on_port=None, **kw):
                        return orig_main_server(on_port=lambda port: browse(port), **kw)
                    mod.main_server = main_server
                import asyncio
                asyncio.set_event_loop(asyncio.new_event_loop())
                rc = mod.main(argv)
                os._exit(int(rc or 0) & 0xff)
            except SystemExit as e:
                os._exit(int(e.code or 0) & 0xff if isinstance(e.code, int) or e.code is None else 99)
            except BaseException:
                os._exit(98)
        os.close(w)
        self.pid = pid
        if port is None:
            ready, _, _ = select.select([r], [], [], 90)
            data = os.read(r, 64) if ready else b''
            os.close(r)
            if not data:
                self.kill()
                raise HarnessError('server (%s) did not report its port' % self.mode)
            self.port = int(data.decode().strip())
        else:
            os.close(r)
            self.port = port
            deadline = time.time() + 90
            while True:
                try:
                    s = socket.create_connection(('127.0.0.1', port), timeout=1)
                    s.close()
                    break
                except OSError:
                    if time.time() > deadline:
                        self.kill()
                        raise HarnessError('plain server did not come up')
                    time.sleep(0.01)
        return self

    def request(self, req):
        method, path, body, headers = req['method'], req['path'], req.get('body'), req.get('headers') or {}
        if method == 'FS':
            # not a request: the harness changes a file in the served directory
            dst = os.path.join(self.root, 'work', path)
            if body is None:
                with open(dst, 'w') as f:
                    f.write('this is no longer a notebook\n')
            else:
                shutil.copyfile(os.path.join(self.root, 'work', body), dst)
            return {'status': 'fs-event', 'body': None}
        if not self.alive():
            # the server process is gone: nothing of it can answer.  Connecting anyway would be wrong, not only pointless: the freed port may
            # already belong to a server that another worker started on port 0, and its answer would be taken for this server's
            return {'status': 'unreachable', 'body': None}
        try:
            c = http.client.HTTPConnection('127.0.0.1', self.port, timeout=90)
            data = body.encode('utf8') if isinstance(body, str) else body
            hdrs = {'Content-Type': 'application/json'}
            hdrs.update(headers)
            c.request(method, path, body=data, headers=hdrs)
            resp = c.getresponse()
            raw = resp.read()
            c.close()
        except (ConnectionError, OSError, http.client.HTTPException) as e:
            return {'status': 'unreachable', 'body': None}
        try:
            parsed = json.loads(raw.decode('utf8'))
        except Exception:
            parsed = {'text': raw.decode('utf8', 'replace')[:300]}
        return {'status': resp.status, 'body': parsed}

    def alive(self):
        if self.pid is None:
            return False
        pid, st = os.waitpid(self.pid, os.WNOHANG)
        if pid == 0:
            return True
        self.exit_status = st
        self.pid = None
        return False

    def wait_exit(self, timeout=30):
        deadline = time.time() + timeout
        while time.time() < deadline:
            if not self.alive():
                return True
            time.sleep(0.005)
        return False

    def kill(self):
        if self.pid is not None:
            try:
                os.kill(self.pid, signal.SIGKILL)
            except OSError:
                pass
            try:
                os.waitpid(self.pid, 0)
            except OSError:
                pass
            self.pid = None


# ---- request alphabet ---------------------------------------------------------------------------------------

def requests_for(mode, tier):
    m = MODES[mode]
    P = m['prefix']
    nbs = notebooks()
    J = json.dumps
    R = []

    def add(name, method, path, body=None, kind='valid', headers=None, **kw):
        R.append(dict(name=name, method=method, path=P + path, body=body, kind=kind, headers=headers, **kw))
    add('diff a->b', 'POST', '/api/diff', J({'base': 'a.ipynb', 'remote': 'b.ipynb'}), kind='diff', files=('a.ipynb', 'b.ipynb'))
    add('diff b->d', 'POST', '/api/diff', J({'base': 'b.ipynb', 'remote': 'd.ipynb'}), kind='diff', files=('b.ipynb', 'd.ipynb'))
    add('diff sj->a', 'POST', '/api/diff', J({'base': 'sj.ipynb', 'remote': 'a.ipynb'}), kind='diff', files=('sj.ipynb', 'a.ipynb'))
    add('diff a->out', 'POST', '/api/diff', J({'base': 'a.ipynb', 'remote': 'out.ipynb'}), kind='diff', files=('a.ipynb', 'out.ipynb'))
    add('merge a,out,c', 'POST', '/api/merge', J({'base': 'a.ipynb', 'local': 'out.ipynb', 'remote': 'c.ipynb'}), kind='merge', files=('a.ipynb', 'out.ipynb', 'c.ipynb'))
    # environment events: another program rewrites a notebook between two requests ("answered as if first, on the current tree")
    R.append(dict(name='FS: b.ipynb rewritten by another program', method='FS', path='b.ipynb', body='d.ipynb', kind='fs', headers=None))
    R.append(dict(name='FS: b.ipynb becomes a non-notebook', method='FS', path='b.ipynb', body=None, kind='fs', headers=None))
    add('merge a,b,c', 'POST', '/api/merge', J({'base': 'a.ipynb', 'local': 'b.ipynb', 'remote': 'c.ipynb'}), kind='merge', files=('a.ipynb', 'b.ipynb', 'c.ipynb'))
    add('merge a,b,d', 'POST', '/api/merge', J({'base': 'a.ipynb', 'local': 'b.ipynb', 'remote': 'd.ipynb'}), kind='merge', files=('a.ipynb', 'b.ipynb', 'd.ipynb'))
    add('store b', 'POST', '/api/store', J({'merged': nbs['b.ipynb']}), kind='store', merged=nbs['b.ipynb'])
    add('store c + foreign paths', 'POST', '/api/store',
        J({'merged': nbs['c.ipynb'], 'outputfilename': '../sentinel/evil.ipynb', 'path': '../sentinel/keep.txt', 'filename': '/tmp/evil.ipynb', 'out': 'b.ipynb'}),
        kind='store', merged=nbs['c.ipynb'])
    add('store merged=5', 'POST', '/api/store', J({'merged': 5}), kind='bad')
    add('store merged=list', 'POST', '/api/store', J({'merged': [1, 2]}), kind='bad')
    add('store no merged key', 'POST', '/api/store', J({'notebook': nbs['b.ipynb']}), kind='bad')
    add('store malformed json', 'POST', '/api/store', '{"merged": ', kind='bad')
    add('diff malformed json', 'POST', '/api/diff', '{not json', kind='bad-notool')
    add('merge malformed json', 'POST', '/api/merge', '', kind='bad-notool')
    add('diff missing remote', 'POST', '/api/diff', J({'base': 'a.ipynb'}), kind='bad-notool')
    add('merge missing remote', 'POST', '/api/merge', J({'base': 'a.ipynb', 'local': 'b.ipynb'}), kind='bad-notool')
    add('diff non-string args', 'POST', '/api/diff', J({'base': 5, 'remote': ['b.ipynb']}), kind='bad-notool')
    add('diff non-notebook file', 'POST', '/api/diff', J({'base': 'notes.txt', 'remote': 'b.ipynb'}), kind='bad-notool')
    add('diff empty file', 'POST', '/api/diff', J({'base': 'empty.ipynb', 'remote': 'b.ipynb'}), kind='bad-notool')
    add('diff unknown file', 'POST', '/api/diff', J({'base': 'nope.ipynb', 'remote': 'b.ipynb'}), kind='bad-notool')
    add('diff dotdot path', 'POST', '/api/diff', J({'base': '../sentinel/secret.ipynb', 'remote': 'b.ipynb'}), kind='read-only')
    add('closetool exitCode=3 (query)', 'POST', '/api/closetool?exitCode=3', '{}', kind='close', code=3)
    add('closetool exitCode=4 (body)', 'POST', '/api/closetool', J({'exitCode': 4}), kind='close', code=4)
    add('closetool no code', 'POST', '/api/closetool', '{}', kind='close', code=1)
    add('unknown api route', 'POST', '/api/nothing', '{}', kind='404')
    add('GET main page', 'GET', '/', kind='page')
    add('GET mergetool page', 'GET', '/mergetool', kind='page')
    if P:
        R.append(dict(name='unprefixed diff under prefix', method='POST', path='/api/diff', body=J({'base': 'a.ipynb', 'remote': 'b.ipynb'}), kind='404', headers=None))
        R.append(dict(name='unprefixed store under prefix', method='POST', path='/api/store', body=J({'merged': nbs['b.ipynb']}), kind='404', headers=None))
    else:
        R.append(dict(name='prefixed diff without prefix', method='POST', path='/pfx/api/diff', body=J({'base': 'a.ipynb', 'remote': 'b.ipynb'}), kind='404', headers=None))
    return R


# ---- library reference (fresh interpreter) ----------------------------------------------------------------------

def reference_main(argv):
    isolate.setup_env()
    isolate.install_id_counter()
    import nbformat
    from nbdime.merging.notebooks import decide_notebook_merge
    from nbdime.nbmergeapp import _build_arg_parser
    root = argv[0]
    out = {}
    for triple in json.loads(argv[1]):
        try:
            nbs = [nbformat.read(os.path.join(root, 'work', f), as_version=4) for f in triple]
        except Exception:
            out['|'.join(triple)] = 'unreadable'
            continue
        args = _build_arg_parser().parse_args(['', '', ''])
        args.merge_strategy = 'mergetool'
        decs = decide_notebook_merge(nbs[0], nbs[1], nbs[2], args=args)
        out['|'.join(triple)] = json.loads(json.dumps(decs))
    sys.stdout.write(json.dumps(out))


def library_reference(root, triples):
    env = dict(os.environ)
    env['PATH'] = env.get('VERIF_ORIG_PATH', env['PATH'])
    p = subprocess.run([sys.executable, '-c', 'import sys; from mc.props.C20 import reference_main; reference_main(sys.argv[1:])', root, json.dumps(triples)],
                       stdout=subprocess.PIPE, stderr=subprocess.PIPE, env=env)
    if p.returncode != 0:
        raise HarnessError('library reference failed: %s' % p.stderr.decode('utf8', 'replace')[-1500:])
    return json.loads(p.stdout.decode('utf8'))


# ---- executing one history -----------------------------------------------------------------------------------------

_G = {}
_first_cache = {}
_libref_cache = {}


def read_nb_plain(path):
    import nbformat
    return U.plain(nbformat.read(path, as_version=4))


def first_response(mode, root_src, req):
    """Response of a freshly started server to `req` as its first request, on a copy of the tree at root_src."""
    if req['kind'] == 'fs':
        return {'status': 'fs-event', 'body': None}
    key = (mode, tree_hash(snapshot(root_src)), req['name'])
    if key in _first_cache:
        return _first_cache[key]
    tmp = tempfile.mkdtemp(prefix='c20f-', dir=isolate.scratch_root())
    try:
        root = os.path.join(tmp, 'r')
        shutil.copytree(root_src, root)
        srv = Server(mode, root).start()
        try:
            resp = srv.request(req)
        finally:
            srv.kill()
    finally:
        shutil.rmtree(tmp, ignore_errors=True)
    _first_cache[key] = resp
    return resp


def run_history(ctx, mode, history):
    """history: list of request dicts.  Fresh tree, fresh server."""
    m = MODES[mode]
    tmp = tempfile.mkdtemp(prefix='c20-', dir=isolate.scratch_root())
    root = os.path.join(tmp, 'r')
    shutil.copytree(_G['tree'], root)
    srv = Server(mode, root).start()
    closed = False
    try:
        for i, req in enumerate(history):
            last = (i == len(history) - 1)
            before = snapshot(root)
            # reference for (vi) must be taken on the tree as it is *before* the request
            want_first = None
            if i > 0 and not closed:
                ref_root = os.path.join(tmp, 'ref')
                if os.path.exists(ref_root):
                    shutil.rmtree(ref_root)
                shutil.copytree(root, ref_root)
                want_first = first_response(mode, ref_root, req)
            resp = srv.request(req)
            after = snapshot(root)
            ctx.count('transitions')
            ctx.count('evaluations')
            if i > 0:
                ctx.count('nontrivial')
            ctx.seen('statuses', '%s:%s' % (req['kind'], resp['status']))
            case = {'mode': mode, 'history': [r['name'] for r in history[:i + 1]], 'response_status': resp['status']}
            judge(ctx, mode, req, resp, before, after, root, srv, closed, case)
            if closed:
                if resp['status'] not in ('unreachable', 'fs-event'):
                    ctx.violation('%s|CLOSE|still-serving-after-close' % PROP, 'server answered after an honoured close request', case)
            elif want_first is not None:
                if canon(resp) != canon(want_first):
                    ctx.violation('%s|HISTORY|%s|%s' % (PROP, req['kind'], 'status' if resp['status'] != want_first['status'] else 'body'),
                                  'response to %r after %r differs from a fresh server\'s first response (status %s vs %s)'
                                  % (req['name'], [r['name'] for r in history[:i]], resp['status'], want_first['status']), case)
            if req['kind'] == 'close' and m['closable'] and resp['status'] == 200:
                closed = True
    finally:
        srv.kill()
        shutil.rmtree(tmp, ignore_errors=True)


def files_readable(root, m, req):
    if req['path'].endswith('/api/diff') and is_difftool(m):
        files = [m['tool'][0], m['tool'][2]]
    elif req['path'].endswith('/api/merge') and is_mergetool(m):
        files = list(m['tool'])
    else:
        files = list(req.get('files') or ())
    for f in files:
        try:
            read_nb_plain(os.path.join(root, 'work', f))
        except Exception:
            return False
    return True


def is_difftool(m):
    return m['entry'] == 'nbdifftool' or m.get('pinned_diff', False)


def is_mergetool(m):
    return m['entry'] == 'nbmergetool'


def judge(ctx, mode, req, resp, before, after, root, srv, closed, case):
    m = MODES[mode]
    kind = req['kind']
    if kind == 'fs':
        return
    st = resp['status']
    changed = sorted(k for k in set(before) | set(after) if before.get(k) != after.get(k))
    outrel = os.path.join('work', m['output']) if m['output'] else None
    if closed:
        if changed:
            ctx.violation('%s|DISK|changed-after-close' % PROP, 'tree changed although the server is closed: %r' % changed, case)
        return
    # (iii) confinement: only the configured output file may ever change, and only through a successful store
    foreign = [c for c in changed if c != outrel]
    if foreign:
        ctx.violation('%s|DISK|foreign-path|%s' % (PROP, kind), 'request %r changed %r' % (req['name'], foreign), case)
    if outrel in changed and not (kind == 'store' and st == 200):
        ctx.violation('%s|DISK|output-changed|%s|status-%s' % (PROP, kind, st), 'output file changed by %r answered with %s' % (req['name'], st), case)
    if kind == 'store':
        if not m['output']:
            if st != 400:
                ctx.violation('%s|STORE|no-output-configured|status-%s' % (PROP, st), 'store without configured output file answered %s' % st, case)
        elif st == 200:
            try:
                got = read_nb_plain(os.path.join(root, outrel))
                import nbformat
                want = U.plain(nbformat.from_dict(json.loads(json.dumps(req['merged']))))
                if canon(got) != canon(want):
                    ctx.violation('%s|STORE|content' % PROP, 'stored file is not the submitted notebook', case)
            except Exception as e:
                ctx.violation('%s|STORE|unreadable|%s' % (PROP, type(e).__name__), 'stored file cannot be read back: %s' % e, case)
        else:
            ctx.violation('%s|STORE|valid-store-refused|status-%s' % (PROP, st), 'valid store answered %s' % st, case)
    if kind in ('bad', 'bad-notool', '404'):
        tool_ignores_body = kind == 'bad-notool' and ((req['path'].endswith('/api/diff') and is_difftool(m)) or (req['path'].endswith('/api/merge') and is_mergetool(m)))
        if not tool_ignores_body:
            if not (isinstance(st, int) and st >= 400):
                ctx.violation('%s|ERROR-STATUS|%s|status-%s' % (PROP, kind, st), 'malformed request %r answered %s' % (req['name'], st), case)
        if kind == '404' and st != 404:
            ctx.violation('%s|ROUTING|status-%s' % (PROP, st), 'unrouted path %s answered %s' % (req['path'], st), case)
    if kind == 'read-only' and changed:
        ctx.violation('%s|DISK|read-request-wrote' % PROP, 'read request changed the tree', case)
    # (i) diff
    if req['path'].endswith('/api/diff') and st == 200 and kind != '404':
        body = resp['body']
        if is_difftool(m):
            remote_file = m['tool'][2]
        else:
            remote_file = json.loads(req['body'])['remote'] if kind in ('diff', 'read-only') else None
        if remote_file is not None and files_readable(root, m, req):
            try:
                want = read_nb_plain(os.path.join(root, 'work', remote_file))
                got = ref_patch(body['base'], body['diff'])
                if canon(got) != canon(want):
                    ctx.violation('%s|DIFF|patch-mismatch' % PROP, '/api/diff: patching the returned base with the returned diff does not give the remote notebook', case)
                ctx.count('diff_responses_verified')
            except (RefPatchError, KeyError, TypeError) as e:
                ctx.violation('%s|DIFF|unusable|%s' % (PROP, type(e).__name__), '/api/diff response cannot be applied: %s' % e, case)
    # (ii) merge
    if req['path'].endswith('/api/merge') and st == 200 and kind != '404':
        if is_mergetool(m):
            triple = m['tool']
        elif kind == 'merge':
            triple = req['files']
        else:
            triple = None
        if triple is not None and files_readable(root, m, req):
            th = tree_hash({k: v for k, v in before.items() if k.startswith('work' + os.sep) and os.path.basename(k) in triple})
            key = ('|'.join(triple), th)
            if key not in _libref_cache:
                _libref_cache[key] = library_reference(root, [list(triple)]).get('|'.join(triple), 'unreadable')
            want = _libref_cache[key]
            if canon(resp['body'].get('merge_decisions')) != canon(want):
                ctx.violation('%s|MERGE|decisions-differ' % PROP, '/api/merge decisions differ from decide_notebook_merge of the same files', case)
            try:
                if canon(resp['body'].get('base')) != canon(read_nb_plain(os.path.join(root, 'work', triple[0]))):
                    ctx.violation('%s|MERGE|base-differs' % PROP, '/api/merge returned a base that is not the base file', case)
            except Exception:
                pass
            ctx.count('merge_responses_verified')
    if kind in ('diff', 'merge') and not files_readable(root, m, req):
        # another program has turned an input into a non-notebook: the request is no longer a valid one
        if not (isinstance(st, int) and st >= 400):
            ctx.violation('%s|ERROR-STATUS|unreadable-input|status-%s' % (PROP, st), 'request naming an unreadable notebook answered %s' % st, case)
    elif kind in ('diff', 'merge') and st != 200:
        ctx.violation('%s|VALID-REQUEST-REFUSED|%s|status-%s' % (PROP, kind, st), 'valid %s request answered %s' % (kind, st), case)
    # (iv) close
    if kind == 'close':
        if m['closable']:
            if st != 200:
                ctx.violation('%s|CLOSE|closable-refused|status-%s' % (PROP, st), 'closable server refused closetool with %s' % st, case)
            else:
                if not srv.wait_exit(60):
                    ctx.violation('%s|CLOSE|no-exit' % PROP, 'server did not exit after closetool', case)
                else:
                    code = os.WEXITSTATUS(srv.exit_status) if os.WIFEXITED(srv.exit_status) else -1
                    if code != req['code']:
                        ctx.violation('%s|CLOSE|exit-code' % PROP, 'server exited with %s, requested %s' % (code, req['code']), case)
                    ctx.count('close_honoured')
        else:
            if st != 400:
                ctx.violation('%s|CLOSE|non-closable|status-%s' % (PROP, st), 'non-closable server answered closetool with %s' % st, case)
            if not srv.alive():
                ctx.violation('%s|CLOSE|non-closable-exited' % PROP, 'non-closable server exited on closetool', case)
    if kind == 'page' and st != 200:
        ctx.violation('%s|PAGE|status-%s' % (PROP, st), 'page %s answered %s' % (req['path'], st), case)


def _shard(sh, ctx):
    mode, first_idxs, depth = sh
    reqs = _G['reqs'][mode]
    for i in first_idxs:
        run_history(ctx, mode, [reqs[i]])
        if depth >= 2:
            for j in range(len(reqs)):
                run_history(ctx, mode, [reqs[i], reqs[j]])
                if depth >= 3 and reqs[i]['kind'] in ('store', 'bad', 'close', 'diff', 'merge', 'fs') and reqs[j]['kind'] in ('store', 'bad', 'merge', 'diff', 'close', 'fs'):
                    for k in range(len(reqs)):
                        if reqs[k]['kind'] in ('diff', 'merge', 'store', 'bad', 'close'):
                            run_history(ctx, mode, [reqs[i], reqs[j], reqs[k]])
                elif depth == 2 and reqs[i]['kind'] in ('diff', 'merge') and reqs[j]['kind'] in ('store', 'fs'):
                    # quick tier: read - change - read again (the shape that exposes anything remembered between requests)
                    for k in range(len(reqs)):
                        if reqs[k]['kind'] in ('diff', 'merge'):
                            run_history(ctx, mode, [reqs[i], reqs[j], reqs[k]])
        ctx.sample({'mode': mode, 'first_request': reqs[i]['name'], 'depth': depth}, rank=(mode, i))


def controls():
    """Negative controls for the oracle: fabricated observations that must be flagged."""
    class FakeSrv(object):
        exit_status = 0

        def alive(self):
            return True

        def wait_exit(self, t=0):
            return False
    base = {'work/a.ipynb': b'A', 'work/out.ipynb': b'OLD', 'sentinel/keep.txt': b'K'}
    req_store = {'name': 'store', 'kind': 'store', 'path': '/api/store', 'method': 'POST', 'merged': notebooks()['b.ipynb']}
    c = Ctx()
    after = dict(base, **{'sentinel/keep.txt': b'CHANGED'})
    judge(c, 'mergetool', req_store, {'status': 200, 'body': {}}, base, after, '/nonexistent', FakeSrv(), False, {})
    if not any(f.startswith('C20|DISK|foreign-path') for f in c.viol):
        raise HarnessError('C20 control: write outside the configured output not flagged')
    c = Ctx()
    req_bad = {'name': 'bad', 'kind': 'bad', 'path': '/api/store', 'method': 'POST'}
    judge(c, 'mergetool', req_bad, {'status': 500, 'body': {}}, base, dict(base, **{'work/out.ipynb': b''}), '/nonexistent', FakeSrv(), False, {})
    if not any(f.startswith('C20|DISK|output-changed') for f in c.viol):
        raise HarnessError('C20 control: truncation by a failing request not flagged')
    c = Ctx()
    judge(c, 'mergeweb-noout-persist', req_store, {'status': 200, 'body': {}}, base, base, '/nonexistent', FakeSrv(), False, {})
    if not any(f.startswith('C20|STORE|no-output-configured') for f in c.viol):
        raise HarnessError('C20 control: store accepted without configured output not flagged')
    c = Ctx()
    req_close = {'name': 'close', 'kind': 'close', 'path': '/api/closetool', 'method': 'POST', 'code': 3}
    judge(c, 'plain', req_close, {'status': 200, 'body': {}}, base, base, '/nonexistent', FakeSrv(), False, {})
    if not any(f.startswith('C20|CLOSE|non-closable') for f in c.viol):
        raise HarnessError('C20 control: close honoured by a non-closable server not flagged')


def run(tier, seed):
    isolate.setup_env()
    isolate.install_id_counter()
    if STUBS not in sys.path:
        sys.path.insert(0, STUBS)
    os.environ['PYTHONPATH'] = os.environ.get('PYTHONPATH', '') + os.pathsep + STUBS
    # the parent imports the web stack, never serves a request
    import nbdime.webapp.nbdimeserver, nbdime.webapp.nbdifftool, nbdime.webapp.nbmergetool, nbdime.webapp.nbmergeweb, nbdime.webapp.nbdiffweb  # noqa
    tree = tempfile.mkdtemp(prefix='c20tree-', dir=isolate.scratch_root())
    make_tree(tree)
    _G['tree'] = tree
    modes = ['plain', 'difftool', 'mergetool', 'mergeweb-out', 'mergeweb-noout-persist', 'mergetool-prefix-persist', 'diffweb-gitrefs'] if tier == 'quick' else sorted(MODES)
    _G['reqs'] = {m: requests_for(m, tier) for m in modes}
    triples = [['a.ipynb', 'b.ipynb', 'c.ipynb'], ['a.ipynb', 'b.ipynb', 'd.ipynb']]
    _G['libref'] = library_reference(tree, triples)
    depth = 2 if tier == 'quick' else 3
    shards = []
    for m in modes:
        for i in range(len(_G['reqs'][m])):
            shards.append((m, (i,), depth))
    ctx = run_shards(_shard, shards, seed=seed, label=PROP)
    ev = ctx.counters['evaluations']
    return Result(
        ctx, level='model_checking',
        rule=('all request histories up to length %d over the request alphabet, per server mode, each on a freshly started server and tree (depth 3: '
              'restricted to histories whose first two requests are state-relevant); every request of every history is one transition; non-trivial = the '
              'request is preceded by at least one other request' % depth),
        evaluations=ev, distinct_nontrivial=ctx.counters['nontrivial'],
        states=ctx.counters['transitions'] + len(modes), transitions=ctx.counters['transitions'], traces_validated=ctx.counters['transitions'], exhaustive=True,
        bounds={'tier': tier, 'depth': depth, 'modes': modes, 'requests': {m: [r['name'] for r in _G['reqs'][m]] for m in modes}},
        assumptions=['jupyter_server and jinja2 are replaced by import stubs (mc/stubs); handlers, routing, settings and entry points are nbdime\'s own',
                     'requests are issued one at a time; concurrency inside tornado is not explored',
                     'reading files outside the working directory is not judged (the statement confines writes)'],
    )


def replay(case, ctx):
    isolate.setup_env()
    isolate.install_id_counter()
    if STUBS not in sys.path:
        sys.path.insert(0, STUBS)
    os.environ['PYTHONPATH'] = os.environ.get('PYTHONPATH', '') + os.pathsep + STUBS
    tree = tempfile.mkdtemp(prefix='c20tree-', dir=isolate.scratch_root())
    make_tree(tree)
    _G['tree'] = tree
    mode = case['mode']
    reqs = {r['name']: r for r in requests_for(mode, 'thorough')}
    _G['libref'] = library_reference(tree, [['a.ipynb', 'b.ipynb', 'c.ipynb'], ['a.ipynb', 'b.ipynb', 'd.ipynb']])
    run_history(ctx, mode, [reqs[n] for n in case['history']])
