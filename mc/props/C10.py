"""C10 - use-base/use-local/use-remote equal resolving every open conflict to that side.

Space : depth-1 x depth-1 triples x S in {use-base, use-local, use-remote} x transients on/off, with S
        given as --merge-strategy (root form) or separately as input / output strategy on top of a
        root that leaves conflicts open (separate form); the same-line family of C07.
Oracle: root form: merge(b,l,r,S) has no conflicted decision and equals apply_decisions(b, relabel_S(
        decide(b,l,r,'mergetool'))) where relabel_S sets action=side, conflict=False on every conflicted
        decision; no non-blank merged source line is absent from all three inputs.
        separate form: the same with relabelling restricted to decisions under /cells/*/source and
        /cells/*/attachments (input) resp. /cells/*/outputs (output); the other conflicts are unchanged.
"""
import copy

from .. import isolate, mergecore as M, universe_nb as U
from ..engine import Ctx, canon, run_shards, chunked, HarnessError
from ..findings import exc_fingerprint
from ..run import Result
from .C07 import lines, same_line_family

PROP = 'C10'
SIDES = {'use-base': 'base', 'use-local': 'local', 'use-remote': 'remote'}


def star(path):
    return '/' + '/'.join('*' if isinstance(p, int) else str(p) for p in path)


def governed(dec, form):
    """Does this decision lie under the sub-paths the separate strategy governs?"""
    p = star(dec.common_path)
    # a decision on a cell dict may carry a single patch op into source/outputs/attachments
    keys = set()
    for d in (dec.local_diff or []) + (dec.remote_diff or []):
        keys.add(d.key)
    targets = {'input': ('/cells/*/source', '/cells/*/attachments'), 'output': ('/cells/*/outputs',)}[form]
    for t in targets:
        if p == t or p.startswith(t + '/'):
            return True
        if p == '/cells/*' and keys and all(('/cells/*/%s' % k) == t for k in keys):
            return True
    return False


def relabel(decisions, side, only=None):
    out = []
    for d in decisions:
        d2 = copy.copy(d)
        if d.conflict and (only is None or governed(d, only)):
            d2['action'] = side
            d2['conflict'] = False
        out.append(d2)
    return out


def is_concat(x, inputs, depth=0):
    """Classifier: x is a concatenation of two or more (stripped) input lines."""
    x = x.strip()
    if depth and (not x or x in inputs):
        return True
    if depth > 6:
        return False
    for a in inputs:
        if a and len(a) < len(x) and x.startswith(a) and is_concat(x[len(a):], inputs, depth + 1):
            return True
    return False


def check(ctx, B, L, R, S, form, transients, labels, ts='git'):
    from nbdime.merging.decisions import apply_decisions
    ctx.count('evaluations')
    if labels[1] != labels[2]:
        ctx.count('nontrivial')
    side = SIDES[S]
    if form == 'root':
        cfg = (S, None, None, transients)
        open_cfg = ('mergetool', None, None, transients)
    elif form == 'input':
        cfg = ('mergetool', S, None, transients)
        open_cfg = ('mergetool', None, None, transients)
    else:
        cfg = ('mergetool', None, S, transients)
        open_cfg = ('mergetool', None, None, transients)
    case = {'base': B, 'local': L, 'remote': R, 'strategy': S, 'form': form, 'transients': transients, 'labels': list(labels), 'toolset': ts}
    out = M.run_merge(B, L, R, cfg, ts)
    if out.exc is not None:
        ctx.count('merge_raised(judged by C03)')
        return
    decs, exc = M.run_decide(B, L, R, open_cfg, ts)
    if exc is not None:
        ctx.count('open_merge_raised(judged by C03)')
        return
    nconf = sum(1 for d in decs if d.conflict)
    if nconf:
        ctx.count('had_open_conflicts')
    ctx.seen('open_conflict_counts', str(min(nconf, 5)))
    try:
        ref = apply_decisions(U.to_node(B), relabel(decs, side, None if form == 'root' else form))
    except Exception as e:
        ctx.violation(exc_fingerprint(PROP, e, 'RELABEL-APPLY-EXC|' + form), 'applying the relabelled open decisions raised %s: %s' % (type(e).__name__, e), case)
        return
    if form == 'root':
        if out.conflicted:
            ctx.violation('%s|UNRESOLVED|%s' % (PROP, S), '%s leaves an unresolved conflict' % S, case)
    else:
        want = sorted(canon([list(d.common_path), U.plain(d.local_diff), U.plain(d.remote_diff)]) for d in decs if d.conflict and not governed(d, form))
        got = sorted(canon([list(d.common_path), U.plain(d.local_diff), U.plain(d.remote_diff)]) for d in out.decisions if d.conflict)
        if want != got:
            ctx.violation('%s|SEPARATE-CONFLICTS|%s|%s' % (PROP, form, S), 'separate %s strategy %s: remaining conflicts differ from the open merge' % (form, S), case)
    if canon(out.merged) != canon(ref):
        ctx.violation('%s|EQUIV|%s|%s' % (PROP, form, S), 'merge with %s (%s form) differs from resolving every open conflict to %s' % (S, form, side), case)
    if form == 'root':
        foreign = lines(U.plain(out.merged)) - lines(B) - lines(L) - lines(R)
        inputs = lines(B) | lines(L) | lines(R)
        for x in sorted(foreign):
            glued = is_concat(x, inputs)
            ctx.violation('%s|FOREIGN-LINE|%s|%s' % (PROP, 'glued-lines' if glued else 'plain', S),
                          'merged source contains a line absent from all three inputs: %r' % x, case)


_G = {}


def _shard(sh, ctx):
    if sh[0] == 'sameline':
        _, lo, hi = sh
        for idx, (B, L, R, label, var) in enumerate(_G['sameline']):
            if lo <= idx < hi:
                for S in SIDES:
                    check(ctx, B, L, R, S, 'root', True, ('sameline', label + ':L', label + ':R'))
        return
    _, sname, idxs, forms, trs = sh
    seed, d1 = M.depth1(sname)
    for i in idxs:
        for j in range(len(d1)):
            for S in SIDES:
                for form in forms:
                    for t in trs:
                        check(ctx, seed, d1[i][2], d1[j][2], S, form, t, (sname, d1[i][0], d1[j][0]))
        ctx.sample({'seed': sname, 'local_edit': d1[i][0], 'remote_edits': len(d1), 'forms': list(forms), 'transients': list(trs)}, rank=(sname, i))


def controls():
    isolate.setup_env()
    isolate.install_id_counter()
    seed, d1 = M.depth1('S45')
    by = {l: n for l, t, n in d1}
    c = Ctx()
    check(c, seed, by['src@0:repl1:a'], by['src@0:repl1:b'], 'use-local', 'root', True, ('S45', 'a', 'b'))
    if c.viol:
        raise HarnessError('C10 control: plain source conflict flagged: %r' % list(c.viol))
    if c.counters['had_open_conflicts'] != 1:
        raise HarnessError('C10 control: expected an open conflict in the control case')
    # a wrong relabel must be noticed
    import nbdime.merging.decisions as md
    c = Ctx()
    global relabel
    orig = relabel
    try:
        relabel = lambda decs, side, only=None: orig(decs, 'remote' if side == 'local' else 'local', only)
        check(c, seed, by['src@0:repl1:a'], by['src@0:repl1:b'], 'use-local', 'root', True, ('S45', 'a', 'b'))
    finally:
        relabel = orig
    if not any(f.startswith('C10|EQUIV') for f in c.viol):
        raise HarnessError('C10 control: wrong-side resolution not flagged')


def run(tier, seed):
    isolate.setup_env()
    isolate.install_id_counter()
    shards = []
    info = {}
    if tier == 'quick':
        plan = [('S45', ('root', 'input', 'output'), (True,)), ('S44', ('root',), (True, False)), ('Ssim', ('root',), (True,)), ('Sv2', ('root',), (True, False))]
    else:
        plan = [(s, ('root', 'input', 'output'), (True, False)) for s in ('S45', 'S44', 'Ssim', 'Sjson', 'Sv2', 'Sv0', 'Sempty')]
    plan = plan + [('S45#cellruns3', ('root',), (True,)), ('S45#outruns2', ('root', 'output'), (True,)), ('S45#focus:source', ('root',), (True,)),
                   ('S45#focus:outputs', ('root', 'output'), (True,)), ('S45#focus:meta', ('root',), (True,)), ('S45#focus:attachments', ('root', 'input'), (True,)), ('S45#lineruns3', ('root',), (True,)), ('S45#focus:cellmix2', ('root',), (True,))]
    if tier == 'quick':
        plan = [(s, f, t) for s, f, t in plan if s != 'S45#cellruns3'] + [('S45#cellruns3', ('root',), (True,))]
    for sname, forms, trs in plan:
        _, d1 = M.depth1(sname)
        idx = list(range(len(d1)))
        if tier == 'quick' and sname in ('Ssim', 'S44'):
            idx = idx[::3]
        if tier == 'quick' and sname == 'S45#cellruns3':
            idx = idx[::2]
        info[sname] = '%d x %d edits x 3 strategies x %s x transients %s' % (len(idx), len(d1), '/'.join(forms), trs)
        for ch in chunked(idx, len(idx)):
            shards.append(('triples', sname, ch, forms, trs))
    _G['sameline'] = list(same_line_family(tier))
    n = len(_G['sameline'])
    info['same_line_family'] = n
    for lo in range(0, n, 10):
        shards.append(('sameline', lo, lo + 10))
    ctx = run_shards(_shard, shards, seed=seed, label=PROP)
    ev = ctx.counters['evaluations']
    return Result(
        ctx, level='exploration',
        rule=('every (seed, l, r) of depth-1 states x {use-base, use-local, use-remote} x form x transients, plus the same-line family; each '
              'case runs the strategy merge and the open (mergetool) merge and compares; non-trivial = the two sides differ'),
        evaluations=ev, distinct_nontrivial=ctx.counters['nontrivial'],
        states=sum(1 + len(M.depth1(s)[1]) for s, _, _ in plan) + n, transitions=ev * 2, traces_validated=ev * 2, exhaustive=True,
        bounds=dict(info, tier=tier),
        assumptions=['the separate form is evaluated on a root that leaves conflicts open (merge_strategy=mergetool with input/output strategy set), '
                     'because with the CLI root "inline" the remaining conflicts are rendered inline and are not comparable decision by decision',
                     'relabelled decisions are applied with nbdime.apply_decisions (C09 ties it to the independent ref_apply)'],
    )


def replay(case, ctx):
    isolate.setup_env()
    isolate.install_id_counter()
    check(ctx, case['base'], case['local'], case['remote'], case['strategy'], case['form'], case['transients'],
          tuple(case.get('labels', ('?', 'l', 'r'))), case.get('toolset', 'git'))
