"""C08 - merge command and git merge driver: exit status, output file, behaviour on failure.

Fault enumeration over a short run ("every crash point of a history") on the real entry points.

Scenarios : notebook triples (clean and conflicting), /dev/null placeholders (added on both sides, deleted on
            one side, deleted on both), empty base file; strategies; entry points nbmerge --out, nbmerge (stdout),
            nbmerge --decisions --out, git-nbmergedriver merge %O %A %B %L %P.
Steps     : read base, read local, read remote, diff local, diff remote, decide, apply, serialise, open output,
            write #1..#k, close - observed through harness-side wrappers (no source hooks).
Faults    : OSError(EIO), MemoryError, KeyboardInterrupt raised at the entry of a step; short write followed by
            OSError; kill (SIGKILL at the step boundary: no finally, no flush).  All scenario x step x fault.
Oracle    : fault-free: status 0 <=> an independent library merge of the same inputs has no conflicted decision;
            output (file / %A / stdout) is well-formed JSON equal to the library result; agreed deletion removes the
            output and exits 0; %P is never created.  With a fault: status != 0 (never success); if the fault
            precedes "open output" the output bytes are identical to before.
"""
import errno
import io
import json
import os
import pathlib
import shutil
import signal
import subprocess
import sys
import tempfile

from .. import isolate, mergecore as M, universe_nb as U
from ..engine import Ctx, canon, run_shards, chunked, HarnessError
from ..run import Result

PROP = 'C08'
NULL = '/dev/null'
STEPS = ['read-base', 'read-local', 'read-remote', 'diff-local', 'diff-remote', 'decide', 'apply', 'serialise', 'open-output',
         'write-1', 'write-2', 'write-3', 'close']
PRE_OUTPUT = set(STEPS[:STEPS.index('open-output')])
COMPUTE_STEPS = {'read-base', 'read-local', 'read-remote', 'diff-local', 'diff-remote', 'decide', 'apply'}
FAULTS = ['EIO', 'MemoryError', 'KeyboardInterrupt', 'short-write', 'kill']
PREVIOUS = '{"previous": "content that must survive an early failure"}\n'


class Plan(object):
    """Fault plan + step recorder, consulted by the wrappers in the child process."""

    def __init__(self, step=None, fault=None, log_fd=None):
        self.step = step
        self.fault = fault
        self.log_fd = log_fd
        self.reads = 0
        self.diffs = 0
        self.writes = 0

    def reach(self, name, fileobj=None, data=None):
        if self.log_fd is not None:
            os.write(self.log_fd, (name + '\n').encode())
        if name != self.step:
            return
        f = self.fault
        if f == 'kill':
            os.kill(os.getpid(), signal.SIGKILL)
        if f == 'EIO':
            raise OSError(errno.EIO, 'injected I/O error at %s' % name)
        if f == 'MemoryError':
            raise MemoryError('injected at %s' % name)
        if f == 'KeyboardInterrupt':
            raise KeyboardInterrupt()
        if f == 'short-write':
            if fileobj is not None and data:
                fileobj.write(data[:max(1, len(data) // 2)])
                fileobj.flush()
            raise OSError(errno.ENOSPC, 'injected short write at %s' % name)


class FaultyFile(object):
    def __init__(self, f, plan):
        self._f = f
        self._plan = plan

    def write(self, data):
        self._plan.writes += 1
        n = min(self._plan.writes, 3)
        self._plan.reach('write-%d' % n, self._f, data)
        return self._f.write(data)

    def close(self):
        self._plan.reach('close')
        return self._f.close()

    def __enter__(self):
        return self

    def __exit__(self, *a):
        self.close()
        return False

    def __getattr__(self, name):
        return getattr(self._f, name)


def install_seams(plan, outpath):
    import nbformat
    import nbdime.nbmergeapp as app
    import nbdime.merging.notebooks as mn
    outreal = os.path.realpath(outpath) if outpath else None
    orig_read = app.read_notebook

    def read_notebook(f, *a, **k):
        plan.reads += 1
        plan.reach(['read-base', 'read-local', 'read-remote'][min(plan.reads, 3) - 1])
        return orig_read(f, *a, **k)
    app.read_notebook = read_notebook
    orig_diff = mn.diff_notebooks

    def diff_notebooks(a, b):
        plan.diffs += 1
        plan.reach('diff-local' if plan.diffs == 1 else 'diff-remote')
        return orig_diff(a, b)
    mn.diff_notebooks = diff_notebooks
    orig_decide = mn.decide_merge_with_diff

    def decide(*a, **k):
        plan.reach('decide')
        return orig_decide(*a, **k)
    mn.decide_merge_with_diff = decide
    orig_apply = mn.apply_decisions

    def apply(*a, **k):
        plan.reach('apply')
        return orig_apply(*a, **k)
    mn.apply_decisions = apply
    orig_writes = nbformat.writes

    def writes(*a, **k):
        plan.reach('serialise')
        return orig_writes(*a, **k)
    nbformat.writes = writes
    orig_json_dump = json.dump

    def dump(obj, fp, *a, **k):
        if isinstance(fp, FaultyFile):
            plan.reach('serialise')
        return orig_json_dump(obj, fp, *a, **k)
    json.dump = dump

    def is_out(p):
        try:
            return outreal is not None and os.path.realpath(os.fspath(p)) == outreal
        except TypeError:
            return False
    orig_path_open = pathlib.Path.open

    def path_open(self, mode='r', *a, **k):
        if 'w' in mode and is_out(self):
            plan.reach('open-output')
            return FaultyFile(orig_path_open(self, mode, *a, **k), plan)
        return orig_path_open(self, mode, *a, **k)
    pathlib.Path.open = path_open
    orig_io_open = io.open

    def io_open(file, mode='r', *a, **k):
        if isinstance(file, (str, bytes, os.PathLike)) and 'w' in mode and is_out(file):
            plan.reach('open-output')
            return FaultyFile(orig_io_open(file, mode, *a, **k), plan)
        return orig_io_open(file, mode, *a, **k)
    io.open = io_open
    import builtins
    builtins.open = io_open
    if outpath is None:
        # stdout is the output: wrap sys.stdout.write
        real = sys.stdout
        sys.stdout = FaultyFile(real, plan)


# ---- scenarios ---------------------------------------------------------------------------------------------------

def scenarios(tier):
    seed, d1 = M.depth1('S45')
    by = {l: n for l, t, n in d1}
    seed44, d144 = M.depth1('S44')
    by44 = {l: n for l, t, n in d144}
    T = []

    def add(name, b, l, r, cfg=M.DEFAULT):
        T.append({'name': name, 'base': b, 'local': l, 'remote': r, 'cfg': list(cfg)})
    add('clean: different cells', seed, by['src@0:repl1:a'], by['src@2:repl1:a'])
    add('conflict: same line', seed, by['src@0:repl1:a'], by['src@0:repl1:b'])
    add('conflict: outputs', seed, by['out@0:append:Ostream'], by['out@0:append:Oerr'])
    add('clean: one-sided', seed, by['cell-insert:C1@3'], seed)
    add('conflict resolved by use-local', seed, by['src@0:repl1:a'], by['src@0:repl1:b'], ('use-local', None, None, True))
    add('conflict + clear-all outputs', seed, by['out@0:append:Ostream'], by['out@0:append:Oerr'], ('inline', None, 'clear-all', True))
    add('added on both sides (base null), same', None, by['src@0:repl1:a'], by['src@0:repl1:a'])
    add('added on both sides (base null), different', None, by['src@0:repl1:a'], by['src@0:repl1:b'])
    add('added on both sides (empty base file)', '', by['src@0:repl1:a'], by['src@0:repl1:b'])
    add('deleted locally, edited remotely', seed, None, by['src@0:repl1:b'])
    add('edited locally, deleted remotely', seed, by['src@0:repl1:a'], None)
    add('deleted on both sides', seed, None, None)
    add('no ids: delete vs edit cell', seed44, by44['cell-delete@0'], by44['src@0:repl1:a'])
    add('metadata conflict', seed, by['nbmeta:kspec-name'], by['nbmeta:kspec-name:b'])
    if True:
        for a, b in (('att@1:add:b1', 'att@1:add:b2'), ('cell-insert:M1@3', 'cell-insert:M2@3'), ('cell-retype@0:markdown', 'out@0:clear'), ('ec@0:7', 'ec@0:8'),
                     ('cell-move:0>2', 'src@0:tweak1'), ('id@0:renamed', 'id@0:other')):
            add('extra: %s | %s' % (a, b), seed, by[a], by[b])
            add('extra mergetool-like use-remote: %s | %s' % (a, b), seed, by[a], by[b], ('use-remote', None, None, False))
    if tier == 'thorough':
        n = len(d1)
        for i in range(0, n, 2):
            j = (i * 7 + 3) % n
            add('slice: %s | %s' % (d1[i][0], d1[j][0]), seed, d1[i][2], d1[j][2])
    return T


ENTRIES = ['nbmerge --out', 'nbmerge stdout', 'nbmerge --decisions --out', 'driver']


def strategy_argv(cfg):
    m, i, o, t = cfg
    argv = ['--merge-strategy', m]
    if i:
        argv += ['--input-strategy', i]
    if o:
        argv += ['--output-strategy', o]
    if not t:
        argv += ['--no-ignore-transients']
    return argv


def prepare(dirpath, sc, entry):
    """Write input files; returns (argv, outpath, previous bytes, entry callable name)."""
    paths = {}
    for role in ('base', 'local', 'remote'):
        v = sc[role]
        if v is None:
            paths[role] = NULL
        else:
            p = os.path.join(dirpath, role + '.ipynb')
            with open(p, 'w', encoding='utf8') as f:
                if v != '':
                    json.dump(v, f, indent=1)
            paths[role] = p
    sargv = strategy_argv(tuple(sc['cfg']))
    if entry == 'driver':
        # git passes temporary files for %O %A %B (an empty file when the base does not exist) and never invokes the driver when a
        # side was deleted; %A is overwritten with the result.
        out = paths['local']
        assert out != NULL and paths['remote'] != NULL, 'driver scenarios always have both sides'
        if paths['base'] == NULL:
            paths['base'] = os.path.join(dirpath, 'base.ipynb')
            open(paths['base'], 'w').close()
        with open(out, 'rb') as f:
            prev = f.read()
        argv = ['merge'] + sargv + [paths['base'], paths['local'], paths['remote'], '7', os.path.join(dirpath, 'result-name-P.ipynb')]
        return argv, out, prev
    out = os.path.join(dirpath, 'out.ipynb')
    if entry in ('nbmerge --out', 'nbmerge --decisions --out'):
        with open(out, 'w') as f:
            f.write(PREVIOUS)
        argv = sargv + [paths['base'], paths['local'], paths['remote'], '--out', out]
        if 'decisions' in entry:
            argv = ['--decisions'] + argv
        return argv, out, PREVIOUS.encode()
    argv = sargv + [paths['base'], paths['local'], paths['remote']]
    return argv, None, None


def run_child(dirpath, sc, entry, step, fault):
    """Fork; run the entry point with the fault plan; returns dict(status, signal, steps, stdout)."""
    argv, out, prev = prepare(dirpath, sc, entry)
    lr, lw = os.pipe()
    stdout_path = os.path.join(dirpath, 'stdout.txt')
    pid = os.fork()
    if pid == 0:
        code = 1
        try:
            os.close(lr)
            fd = os.open(stdout_path, os.O_WRONLY | os.O_CREAT | os.O_TRUNC)
            os.dup2(fd, 1)
            dn = os.open(os.devnull, os.O_WRONLY)
            os.dup2(dn, 2)
            sys.stdout = io.TextIOWrapper(os.fdopen(1, 'wb', closefd=False), encoding='utf8', write_through=True)
            sys.stderr = io.TextIOWrapper(os.fdopen(2, 'wb', closefd=False), encoding='utf8', write_through=True)
            isolate.reset_globals()
            plan = Plan(step, fault, lw)
            install_seams(plan, out)
            if entry == 'driver':
                from nbdime.vcs.git.mergedriver import main
            else:
                from nbdime.nbmergeapp import main
            try:
                rc = main(argv)
                code = 0 if rc is None else (rc if isinstance(rc, int) else 1)
                try:
                    sys.stdout.flush()
                except Exception:
                    code = code or 120
            except SystemExit as e:
                code = e.code if isinstance(e.code, int) else (0 if e.code is None else 1)
            except KeyboardInterrupt:
                code = 130
            except BaseException:
                code = 1            # the interpreter prints the traceback and exits with status 1
        finally:
            os._exit(code & 0xff)
    os.close(lw)
    chunks = []
    while True:
        c = os.read(lr, 65536)
        if not c:
            break
        chunks.append(c)
    os.close(lr)
    _, st = os.waitpid(pid, 0)
    res = {'steps': b''.join(chunks).decode().split(), 'out': out, 'prev': prev}
    if os.WIFSIGNALED(st):
        res['status'] = -os.WTERMSIG(st)
    else:
        res['status'] = os.WEXITSTATUS(st)
    try:
        with open(stdout_path, 'rb') as f:
            res['stdout'] = f.read()
    except IOError:
        res['stdout'] = b''
    return res


def library_reference(sc):
    """Independent library merge of the same inputs (what the files contain, read the way nbformat reads them)."""
    import nbformat
    from nbdime.merging.notebooks import merge_notebooks

    def load(v):
        if v is None or v == '':
            return nbformat.v4.new_notebook()
        return nbformat.reads(json.dumps(v), as_version=4)
    isolate.reset_globals()
    b, l, r = load(sc['base']), load(sc['local']), load(sc['remote'])
    merged, decs = merge_notebooks(b, l, r, M.args_for(tuple(sc['cfg'])))
    return U.plain(merged), any(d.conflict for d in decs), json.loads(json.dumps(decs))


def strip_ids(x):
    """new_notebook()/marker cells get fresh random ids in each process; compare modulo generated ids of marker cells."""
    return x


def check_fault_free(ctx, sc, entry, res, case):
    both_deleted = sc['local'] is None and sc['remote'] is None
    out = res['out']
    if both_deleted:
        if res['status'] != 0:
            ctx.violation('%s|AGREED-DELETION|status-%s' % (PROP, res['status']), 'agreed deletion exited with %s' % res['status'], case)
        if out and entry != 'nbmerge --decisions --out' and os.path.exists(out):
            ctx.violation('%s|AGREED-DELETION|output-left' % PROP, 'agreed deletion left the output file in place', case)
        return
    merged, conflicted, decs = library_reference(sc)
    want_status = 1 if conflicted else 0
    if (res['status'] == 0) != (want_status == 0):
        ctx.violation('%s|STATUS|%s|%s' % (PROP, entry, 'zero-with-conflicts' if conflicted else 'nonzero-without-conflicts'),
                      '%s exited with %s, library merge is %s' % (entry, res['status'], 'conflicted' if conflicted else 'clean'), case)
    if res['status'] < 0 or res['status'] > 1:
        ctx.violation('%s|STATUS|%s|abnormal-%s' % (PROP, entry, res['status']), '%s ended abnormally (%s)' % (entry, res['status']), case)
        return
    if entry == 'nbmerge --decisions --out':
        try:
            with open(out, encoding='utf8') as f:
                got = json.load(f)
            if canon(normalise_ids(got)) != canon(normalise_ids(decs)):
                ctx.violation('%s|OUTPUT|decisions-differ' % PROP, '--decisions --out file differs from the library decisions', case)
        except Exception as e:
            ctx.violation('%s|OUTPUT|decisions-unreadable|%s' % (PROP, type(e).__name__), '--decisions --out did not leave JSON: %s' % e, case)
        return
    if entry == 'nbmerge stdout':
        text = res['stdout'].decode('utf8', 'replace')
    else:
        if not out or not os.path.exists(out):
            ctx.violation('%s|OUTPUT|missing|%s' % (PROP, entry), '%s left no output file' % entry, case)
            return
        with open(out, encoding='utf8') as f:
            text = f.read()
    try:
        import nbformat
        got = U.plain(nbformat.reads(text, as_version=4))
    except Exception as e:
        ctx.violation('%s|OUTPUT|not-json|%s|%s' % (PROP, entry, type(e).__name__), '%s output is not a readable notebook: %s' % (entry, e), case)
        return
    if canon(normalise_ids(got)) != canon(normalise_ids(merged)):
        ctx.violation('%s|OUTPUT|differs|%s|%s' % (PROP, entry, diff_class(got, merged)), '%s output differs from the library merge' % entry, case)
    if entry == 'driver':
        p = os.path.join(os.path.dirname(out), 'result-name-P.ipynb')
        if os.path.exists(p):
            ctx.violation('%s|DRIVER|wrote-P' % PROP, 'driver created the %P path', case)


def diff_class(got, merged):
    """Classifier: 'dup-id-repaired' when the library result holds duplicate cell ids and the written file differs from it
    only in cell ids (nbformat regenerates duplicate ids when it writes a notebook); 'content' otherwise."""
    ids = [c.get('id') for c in merged.get('cells', []) if 'id' in c]

    def drop(nb):
        nb = json.loads(json.dumps(nb))
        for c in nb.get('cells', []):
            c.pop('id', None)
        return nb
    if len(ids) != len(set(map(str, ids))) and canon(drop(got)) == canon(drop(merged)):
        return 'dup-id-repaired'
    return 'content'


def normalise_ids(x):
    """Marker cells and new_notebook() cells carry ids from nbformat's random generator, which differ between the
    child process and the reference; ids that are not input ids are replaced by a constant."""
    if isinstance(x, dict):
        out = {}
        for k, v in x.items():
            if k == 'id' and isinstance(v, str) and (v.startswith('verif-id-') or (len(v) == 8 and all(c in '0123456789abcdef' for c in v))):
                out[k] = '<generated>'
            else:
                out[k] = normalise_ids(v)
        return out
    if isinstance(x, list):
        return [normalise_ids(v) for v in x]
    return x


def check_faulted(ctx, sc, entry, step, fault, res, case, pre_output=PRE_OUTPUT):
    reached = step in res['steps']
    if not reached:
        ctx.count('fault_point_not_on_this_path')
        return False
    ctx.count('faulted_runs')
    ctx.seen('faulted_steps', '%s@%s' % (fault, step))
    if res['status'] == 0:
        ctx.violation('%s|FAULT-SUCCESS|%s|%s|%s' % (PROP, entry, step, fault), '%s reported success although %s was injected at %s' % (entry, fault, step), case)
    if step in pre_output and res['out'] is not None:
        try:
            with open(res['out'], 'rb') as f:
                now = f.read()
        except IOError:
            now = None
        if now != res['prev']:
            ctx.violation('%s|FAULT-OUTPUT-TOUCHED|%s|%s' % (PROP, entry, step), 'a failure at %s (before the result is written) changed the output location' % step, case)
    return True


_G = {}


def _shard(sh, ctx):
    M.install_observers()
    kind, sidx, entry = sh[:3]
    sc = _G['scenarios'][sidx]
    tmp = tempfile.mkdtemp(prefix='c08-', dir=isolate.scratch_root())
    try:
        case0 = {'scenario': sc['name'], 'scenario_index': sidx, 'entry': entry}
        d = os.path.join(tmp, 'ff')
        os.makedirs(d)
        res = run_child(d, sc, entry, None, None)
        ctx.count('evaluations')
        ctx.count('nontrivial')
        ctx.count('fault_free_runs')
        for s in res['steps']:
            ctx.seen('steps_reached', s)
        check_fault_free(ctx, sc, entry, res, dict(case0, step=None, fault=None))
        steps_here = list(dict.fromkeys(res['steps']))
        ctx.sample({'scenario': sc['name'], 'entry': entry, 'status': res['status'], 'steps': steps_here}, rank=(sidx, entry))
        n = 0
        # "before the result is written" = the steps this very run passes before it opens the output
        # plus every step that computes the result: nothing can have been written while the result does not exist yet, wherever the implementation chooses
        # to open the file (only the position of `serialise` relative to `open-output` is taken from the run: --decisions dumps straight into the file)
        pre_output = set(steps_here[:steps_here.index('open-output')]) if 'open-output' in steps_here else set(steps_here)
        pre_output |= COMPUTE_STEPS & set(steps_here)
        for step in steps_here:
            for fault in FAULTS:
                if fault == 'short-write' and not step.startswith('write'):
                    continue
                n += 1
                d = os.path.join(tmp, 'f%d' % n)
                os.makedirs(d)
                res = run_child(d, sc, entry, step, fault)
                ctx.count('evaluations')
                if check_faulted(ctx, sc, entry, step, fault, res, dict(case0, step=step, fault=fault, pre_output=sorted(pre_output)), pre_output):
                    ctx.count('nontrivial')
                shutil.rmtree(d, ignore_errors=True)
    finally:
        shutil.rmtree(tmp, ignore_errors=True)


# ---- end to end through git -----------------------------------------------------------------------------------------

def git_e2e(ctx, sc, sidx):
    """git merge in a scratch repository with the driver configured through a wrapper script."""
    if sc['base'] in (None, '') or sc['local'] is None or sc['remote'] is None:
        return
    tmp = tempfile.mkdtemp(prefix='c08git-', dir=isolate.scratch_root())
    try:
        repo = os.path.join(tmp, 'repo')
        os.makedirs(repo)
        wrapper = os.path.join(tmp, 'git-nbmergedriver')
        with open(wrapper, 'w') as f:
            f.write('#!/bin/sh\nPYTHONPATH=%s exec %s -c "import sys; from nbdime.vcs.git.mergedriver import main; sys.exit(main(sys.argv[1:]))" "$@"\n'
                    % (os.environ['PYTHONPATH'], sys.executable))
        os.chmod(wrapper, 0o755)
        env = dict(os.environ)
        env['PATH'] = tmp + os.pathsep + os.environ['VERIF_ORIG_PATH']

        def git(*a, check=True):
            r = subprocess.run(['git'] + list(a), cwd=repo, env=env, stdout=subprocess.PIPE, stderr=subprocess.PIPE)
            if check and r.returncode != 0:
                raise HarnessError('git %s: %s' % (' '.join(a), r.stderr.decode('utf8', 'replace')))
            return r
        git('init', '-q', '-b', 'main')
        git('config', 'merge.jupyternotebook.driver', 'git-nbmergedriver merge %s %%O %%A %%B %%L %%P' % ' '.join(strategy_argv(tuple(sc['cfg']))))
        with open(os.path.join(repo, '.gitattributes'), 'w') as f:
            f.write('*.ipynb merge=jupyternotebook\n')

        def put(nb):
            with open(os.path.join(repo, 'n.ipynb'), 'w', encoding='utf8') as f:
                json.dump(nb, f, indent=1)
        put(sc['base'])
        git('add', '-A'); git('commit', '-q', '-m', 'base')
        git('checkout', '-q', '-b', 'remote')
        put(sc['remote'])
        git('commit', '-q', '-am', 'remote', check=False)
        git('checkout', '-q', 'main')
        put(sc['local'])
        git('commit', '-q', '-am', 'local', check=False)
        r = git('merge', '--no-edit', 'remote', check=False)
        merged, conflicted, _ = library_reference(sc)
        ctx.count('evaluations')
        ctx.count('nontrivial')
        ctx.count('git_end_to_end_runs')
        case = {'scenario': sc['name'], 'scenario_index': sidx, 'entry': 'git merge (end to end)', 'step': None, 'fault': None}
        unmerged = git('diff', '--name-only', '--diff-filter=U').stdout.decode().split()
        if conflicted != bool(unmerged):
            ctx.violation('%s|GIT|verdict' % PROP, 'git reports %s, library merge is %s' % ('conflict' if unmerged else 'clean', 'conflicted' if conflicted else 'clean'), case)
        try:
            import nbformat
            got = U.plain(nbformat.read(os.path.join(repo, 'n.ipynb'), as_version=4))
            if canon(normalise_ids(got)) != canon(normalise_ids(merged)):
                ctx.violation('%s|GIT|content|%s' % (PROP, diff_class(got, merged)), 'file left by git merge differs from the library merge', case)
        except Exception as e:
            ctx.violation('%s|GIT|unreadable|%s' % (PROP, type(e).__name__), 'file left by git merge is not a notebook: %s' % e, case)
    finally:
        shutil.rmtree(tmp, ignore_errors=True)


def _git_shard(sh, ctx):
    _, sidx = sh
    git_e2e(ctx, _G['scenarios'][sidx], sidx)


def _dispatch(sh, ctx):
    if sh[0] == 'git':
        _git_shard(sh, ctx)
    else:
        _shard(sh, ctx)


def controls():
    if normalise_ids({'id': 'verif-id-3', 'x': [{'id': 'c0'}, {'id': '0a1b2c3d'}]}) != {'id': '<generated>', 'x': [{'id': 'c0'}, {'id': '<generated>'}]}:
        raise HarnessError('C08 control: id normalisation')


def run(tier, seed):
    isolate.setup_env()
    isolate.install_id_counter()
    sc = scenarios(tier)
    _G['scenarios'] = sc
    import nbdime.vcs.git.mergedriver, nbdime.nbmergeapp  # noqa: imported before forking
    for s in sc:
        M.args_for(tuple(s['cfg']))
    shards = []
    for i in range(len(sc)):
        for e in ENTRIES:
            if e == 'driver' and (sc[i]['local'] is None or sc[i]['remote'] is None):
                continue       # git never calls the merge driver for a deleted side
            shards.append(('faults', i, e))
        shards.append(('git', i))
    ctx = run_shards(_dispatch, shards, seed=seed, label=PROP)
    missing = [s for s in STEPS if s not in ctx.sets.get('steps_reached', ()) and s not in ('write-3',)]
    if missing:
        raise HarnessError('fault seams never reached steps %r' % missing)
    ev = ctx.counters['evaluations']
    return Result(
        ctx, level='fault_enumeration',
        rule=('every scenario x entry point is run fault-free once (recording the steps it passes) and then once per (step on its path, fault); '
              'each run is a separate forked process on fresh files; distinct by construction; non-trivial = the fault point was reached (or fault-free run)'),
        evaluations=ev, distinct_nontrivial=ctx.counters['nontrivial'],
        states=len(sc) * len(ENTRIES), transitions=ev, traces_validated=ev, exhaustive=True,
        bounds={'tier': tier, 'scenarios': [s['name'] for s in sc], 'entries': ENTRIES, 'steps': STEPS, 'faults': FAULTS},
        assumptions=['exit status of an uncaught exception is taken as the interpreter\'s (1; KeyboardInterrupt 130; SIGKILL as signal)',
                     'kills are injected at step boundaries, torn writes are modelled as a prefix of the buffer',
                     'ids generated by nbformat for marker cells / empty notebooks are compared modulo their random value'],
    )


def replay(case, ctx):
    isolate.setup_env()
    isolate.install_id_counter()
    sc = scenarios('thorough')
    _G['scenarios'] = sc
    i = case['scenario_index']
    if case['entry'].startswith('git merge'):
        git_e2e(ctx, sc[i], i)
        return
    tmp = tempfile.mkdtemp(prefix='c08-', dir=isolate.scratch_root())
    res = run_child(tmp, sc[i], case['entry'], case.get('step'), case.get('fault'))
    print('status', res['status'], 'steps', res['steps'])
    if case.get('step') is None:
        check_fault_free(ctx, sc[i], case['entry'], res, case)
    else:
        check_faulted(ctx, sc[i], case['entry'], case['step'], case['fault'], res, case, set(case.get('pre_output', PRE_OUTPUT)))
