"""C17 - diffing git revisions examines exactly the notebooks git reports as changed.

Explicit-state search over repository histories with real git and the real changed_notebooks.

State  : a git repository (HEAD~1 tree, HEAD tree, index, working tree), canonicalised as path -> blob hash
         per layer.  A state is rebuilt from its event history in a scratch directory (git with fixed dates,
         so commit ids are deterministic); BFS de-duplicates on the canonical key.
Events : write(f) (next content version), rm(f), mv(f, f'), git add -A, git add f, git commit.
Queries: in every state, every ref pair x cwd in {root, sub, sub/deep} x path filter.
Oracle : `git diff --raw -z -M --abbrev=40 [--cached] ...` run in the same cwd; entries whose paths end in
         .ipynb; contents from `git cat-file blob` / the working file; /dev/null for the absent side;
         changed_notebooks must yield exactly that multiset, and leave os.getcwd() unchanged.
"""
import hashlib
import json
import os
import shutil
import subprocess
import sys
import tempfile

from .. import isolate
from ..engine import Ctx, canon, run_shards, chunked, HarnessError, time_limit
from ..findings import exc_fingerprint
from ..run import Result

PROP = 'C17'

FILES = ['a.ipynb', 'sub/b.ipynb', 'sub/deep/c.ipynb', 'notes.txt', 'sub/sub/d.ipynb']     # sub/sub: a directory named like the one it lies in
MOVES = [('a.ipynb', 'moved.ipynb'), ('sub/b.ipynb', 'sub/deep/b2.ipynb'), ('notes.txt', 'notes2.txt')]
ALL_PATHS = FILES + [m[1] for m in MOVES]


def content(path, version):
    if path.endswith('.ipynb'):
        cells = [{'cell_type': 'code', 'execution_count': None, 'metadata': {}, 'outputs': [],
                  'source': 'print(%r)\nvalue = %d\n' % (os.path.basename(path), k)} for k in range(version + 1)]
        cells.append({'cell_type': 'markdown', 'metadata': {}, 'source': 'shared text of %s, long enough to be similar across versions\n' % os.path.basename(path)})
        return json.dumps({'nbformat': 4, 'nbformat_minor': 4, 'metadata': {}, 'cells': cells}, indent=1) + '\n'
    return ''.join('line %d of %s\n' % (k, os.path.basename(path)) for k in range(3 + version))


def git(repo, *args, check=True, cwd=None):
    r = subprocess.run(['git'] + list(args), cwd=cwd or repo, stdout=subprocess.PIPE, stderr=subprocess.PIPE)
    if check and r.returncode != 0:
        raise HarnessError('git %s failed in %s: %s' % (' '.join(args), repo, r.stderr.decode('utf8', 'replace')))
    return r.stdout


def version_of(repo, path):
    p = os.path.join(repo, path)
    if not os.path.exists(p):
        return None
    with open(p, encoding='utf8') as f:
        text = f.read()
    for v in range(4):
        if text == content(path, v):
            return v
    # moved files keep the content of their source name
    for src, dst in MOVES:
        if path == dst:
            for v in range(4):
                if text == content(src, v):
                    return v
    return 0


def events_for(repo):
    evs = []
    for f in ALL_PATHS:
        if f in FILES:
            evs.append(('write', f))
        if os.path.exists(os.path.join(repo, f)):
            evs.append(('rm', f))
    for src, dst in MOVES:
        if os.path.exists(os.path.join(repo, src)) and not os.path.exists(os.path.join(repo, dst)):
            evs.append(('mv', src, dst))
    evs.append(('add-all',))
    evs.append(('add', 'a.ipynb'))
    evs.append(('add', 'sub'))
    evs.append(('commit',))
    return evs


def apply_event(repo, ev):
    k = ev[0]
    if k == 'write':
        f = ev[1]
        p = os.path.join(repo, f)
        v = version_of(repo, f)
        nv = 0 if v is None else (v + 1) % 3
        os.makedirs(os.path.dirname(p), exist_ok=True)
        with open(p, 'w', encoding='utf8') as fh:
            fh.write(content(f, nv))
    elif k == 'rm':
        os.unlink(os.path.join(repo, ev[1]))
    elif k == 'mv':
        dst = os.path.join(repo, ev[2])
        os.makedirs(os.path.dirname(dst), exist_ok=True)
        os.rename(os.path.join(repo, ev[1]), dst)
    elif k == 'add-all':
        git(repo, 'add', '-A')
    elif k == 'add':
        git(repo, 'add', '-A', '--', ev[1], check=False)
    elif k == 'commit':
        git(repo, 'commit', '-q', '--allow-empty', '-m', 'c')
    for d in ('sub/deep', 'sub'):
        os.makedirs(os.path.join(repo, d), exist_ok=True)   # cwd candidates always exist


def make_root(repo, kind):
    os.makedirs(repo)
    git(repo, 'init', '-q', '-b', 'main')
    with open(os.path.join(repo, 'README'), 'w') as f:
        f.write('readme\n')
    os.makedirs(os.path.join(repo, 'sub', 'deep'))
    git(repo, 'add', '-A')
    git(repo, 'commit', '-q', '-m', 'root')
    if kind == 'full':
        for f in FILES:
            os.makedirs(os.path.dirname(os.path.join(repo, f)), exist_ok=True)
            with open(os.path.join(repo, f), 'w', encoding='utf8') as fh:
                fh.write(content(f, 0))
        git(repo, 'add', '-A')
        git(repo, 'commit', '-q', '-m', 'files')


def build(root_kind, history, where):
    repo = os.path.join(where, 'repo')
    if os.path.exists(repo):
        shutil.rmtree(repo)
    make_root(repo, root_kind)
    for ev in history:
        apply_event(repo, tuple(ev))
    return repo


def state_key(repo):
    parts = []
    for ref in ('HEAD~1', 'HEAD'):
        r = subprocess.run(['git', 'ls-tree', '-r', ref], cwd=repo, stdout=subprocess.PIPE, stderr=subprocess.PIPE)
        parts.append(r.stdout.decode() if r.returncode == 0 else '<none>')
    parts.append(git(repo, 'ls-files', '-s').decode())
    wt = []
    for dirpath, dirs, files in os.walk(repo):
        if '.git' in dirs:
            dirs.remove('.git')
        for fn in sorted(files):
            p = os.path.join(dirpath, fn)
            with open(p, 'rb') as f:
                wt.append((os.path.relpath(p, repo), hashlib.sha1(f.read()).hexdigest()))
    parts.append(repr(sorted(wt)))
    return hashlib.sha1('\x00'.join(parts).encode()).hexdigest()


# ---- queries ---------------------------------------------------------------------------------------------

CWDS = ['.', 'sub', 'sub/deep']
FILTERS = {
    '.': [None, ['a.ipynb'], ['sub'], ['sub/deep/c.ipynb'], ['notes.txt'], ['sub/sub/d.ipynb']],
    'sub': [None, ['b.ipynb'], ['deep'], ['sub/d.ipynb'], ['sub']],
    'sub/deep': [None, ['c.ipynb']],
}


def ref_pairs(repo):
    has_prev = subprocess.run(['git', 'rev-parse', '-q', '--verify', 'HEAD~1'], cwd=repo, stdout=subprocess.PIPE, stderr=subprocess.PIPE).returncode == 0
    pairs = [('HEAD', 'INDEX'), ('HEAD', 'WT'), ('INDEX', 'WT')]
    if has_prev:
        pairs += [('HEAD~1', 'HEAD'), ('HEAD~1', 'WT'), ('HEAD', 'HEAD~1')]
    return pairs


def expected(repo, cwd, a, b, paths):
    args = ['diff', '--raw', '-z', '-M', '--abbrev=40', '--no-color']
    if b == 'INDEX':
        args += ['--cached', a]
    elif a == 'INDEX':
        pass
    elif b == 'WT':
        args += [a]
    else:
        args += [a, b]
    args += ['--'] + (paths or [])
    out = git(repo, *args, cwd=os.path.join(repo, cwd)).decode('utf8')
    toks = out.split('\0')
    res = []
    i = 0
    while i < len(toks):
        t = toks[i]
        if not t.startswith(':'):
            i += 1
            continue
        meta = t[1:].split(' ')
        sha_a, sha_b, status = meta[2], meta[3], meta[4]
        if status[0] in 'RC':
            pa, pb = toks[i + 1], toks[i + 2]
            i += 3
        else:
            pa = pb = toks[i + 1]
            i += 2
        if status[0] == 'A':
            pa = None
        if status[0] == 'D':
            pb = None
        if (pa and not pa.endswith('.ipynb')) or (pb and not pb.endswith('.ipynb')):
            continue

        def side(path, sha, is_wt):
            if path is None:
                return ('/dev/null', None)
            if is_wt:
                with open(os.path.join(repo, path), encoding='utf8') as f:
                    return (path, f.read())
            return (path, git(repo, 'cat-file', 'blob', sha).decode('utf8'))
        res.append((side(pa, sha_a, False), side(pb, sha_b, b == 'WT')))
    return sorted(res, key=repr)


def observed(repo, cwd, a, b, paths):
    from nbdime.gitfiles import changed_notebooks, GitRefIndex, GitRefWorkingTree

    def conv(r):
        return GitRefIndex if r == 'INDEX' else (GitRefWorkingTree if r == 'WT' else r)
    os.chdir(os.path.join(repo, cwd))
    before = os.getcwd()
    res = []
    try:
        for fa, fb in changed_notebooks(conv(a), conv(b), list(paths) if paths else None):
            item = []
            for f in (fa, fb):
                if isinstance(f, str):
                    item.append((f, None))
                else:
                    name = getattr(f, 'name', '')
                    if isinstance(name, str) and ' (' in name:
                        name = name[:name.rindex(' (')]
                    try:
                        data = f.read()
                    finally:
                        try:
                            f.close()
                        except Exception:
                            pass
                    item.append((os.path.normpath(name), data))
            res.append(tuple(item))
        after = os.getcwd()
    finally:
        os.chdir(repo)
    return sorted(res, key=repr), before, after


def cli_forms(repo, cwd):
    """(argv, (a, b, paths)) - nbdiff command lines and the query they must denote (ref-vs-path disambiguation of the CLI)."""
    has_prev = subprocess.run(['git', 'rev-parse', '-q', '--verify', 'HEAD~1'], cwd=repo, stdout=subprocess.PIPE, stderr=subprocess.PIPE).returncode == 0
    forms = [([], ('HEAD', 'WT', None)), (['HEAD'], ('HEAD', 'WT', None))]
    for paths in FILTERS[cwd][1:]:
        forms.append((['HEAD'] + paths, ('HEAD', 'WT', paths)))
        forms.append((list(paths), ('HEAD', 'WT', paths)))
    if has_prev:
        forms.append((['HEAD~1', 'HEAD'], ('HEAD~1', 'HEAD', None)))
        for paths in FILTERS[cwd][1:2]:
            forms.append((['HEAD~1', 'HEAD'] + paths, ('HEAD~1', 'HEAD', paths)))
    return forms


def observed_cli(repo, cwd, argv):
    """Pairs that `nbdiff <argv>` hands to its per-notebook handler (the handler itself is replaced by a recorder)."""
    import io
    from nbdime import nbdiffapp
    os.chdir(os.path.join(repo, cwd))
    before = os.getcwd()
    res = []

    def recorder(base, remote, output, args):
        item = []
        for f in (base, remote):
            if isinstance(f, str):
                if f == '/dev/null':
                    item.append((f, None))
                else:
                    with open(f, encoding='utf8') as fh:
                        item.append((os.path.normpath(os.path.relpath(os.path.abspath(f), repo)), fh.read()))
            else:
                name = getattr(f, 'name', '')
                if isinstance(name, str) and ' (' in name:
                    name = name[:name.rindex(' (')]
                data = f.read()
                try:
                    f.close()
                except Exception:
                    pass
                item.append((os.path.normpath(name), data))
        res.append(tuple(item))
        return 0
    orig = nbdiffapp._handle_diff
    so, se = sys.stdout, sys.stderr
    sys.stdout, sys.stderr = io.StringIO(), io.StringIO()
    nbdiffapp._handle_diff = recorder
    try:
        rc = nbdiffapp.main(list(argv))
        after = os.getcwd()
    finally:
        nbdiffapp._handle_diff = orig
        sys.stdout, sys.stderr = so, se
        os.chdir(repo)
    return sorted(res, key=repr), before, after, rc


def run_cli_queries(ctx, repo, root_kind, history):
    from .. import isolate as _iso
    for cwd in CWDS:
        for argv, (a, b, paths) in cli_forms(repo, cwd):
            # a command line is only unambiguous if none of its path arguments is also a valid ref and refs are not files
            ctx.count('evaluations')
            ctx.count('cli_queries')
            case = {'root': root_kind, 'history': [list(e) for e in history], 'cli': argv, 'cwd': cwd, 'denotes': [a, b, paths]}
            try:
                want = expected(repo, cwd, a, b, paths)
            except HarnessError:
                continue
            if want:
                ctx.count('nontrivial')
            try:
                with time_limit(60):
                    got, before, after, rc = observed_cli(repo, cwd, argv)
            except SystemExit as e:
                ctx.violation('%s|CLI|exit-%s' % (PROP, e.code), 'nbdiff %s exited with %r' % (' '.join(argv), e.code), case)
                os.chdir(repo)
                continue
            except Exception as e:
                ctx.violation(exc_fingerprint(PROP, e, 'CLI-EXC'), 'nbdiff %s raised %s: %s' % (' '.join(argv), type(e).__name__, e), case)
                os.chdir(repo)
                continue
            finally:
                _iso.reset_globals()
            form = ('refs%d' % sum(1 for x in argv if x.startswith('HEAD'))) + ('+paths' if paths else '')
            if got != want:
                gp = sorted((x[0][0], x[1][0]) for x in got)
                wp = sorted((x[0][0], x[1][0]) for x in want)
                ctx.violation('%s|CLI-MISMATCH|%s|%s|%s' % (PROP, 'paths' if gp != wp else 'contents', form, 'root' if cwd == '.' else 'subdir'),
                              'nbdiff %s examines %s, git says %s' % (' '.join(argv), summarise(got)[:8], summarise(want)[:8]), case)
            if before != after:
                ctx.violation('%s|CLI-CWD-CHANGED|%s' % (PROP, form), 'nbdiff changed the working directory', case)


def summarise(items):
    return [[s[0], None if s[1] is None else hashlib.sha1(s[1].encode('utf8')).hexdigest()[:10]] for pair in items for s in pair]


def run_queries(ctx, repo, root_kind, history):
    for a, b in ref_pairs(repo):
        for cwd in CWDS:
            for paths in FILTERS[cwd]:
                ctx.count('evaluations')
                case = {'root': root_kind, 'history': [list(e) for e in history], 'refs': [a, b], 'cwd': cwd, 'paths': paths}
                try:
                    want = expected(repo, cwd, a, b, paths)
                except HarnessError:
                    ctx.count('git_rejects_query')
                    continue
                if want:
                    ctx.count('nontrivial')
                if len(want) >= 2:
                    ctx.count('queries_with_2+_changed_notebooks')
                try:
                    with time_limit(60):
                        got, before, after = observed(repo, cwd, a, b, paths)
                except Exception as e:
                    ctx.violation(exc_fingerprint(PROP, e), 'changed_notebooks raised %s: %s' % (type(e).__name__, e), case)
                    os.chdir(repo)
                    continue
                rkind = '%s..%s' % ('commit' if a not in ('INDEX', 'WT') else a.lower(), 'commit' if b not in ('INDEX', 'WT') else b.lower())
                where = 'root' if cwd == '.' else 'subdir'
                if got != want:
                    gp = sorted((x[0][0], x[1][0]) for x in got)
                    wp = sorted((x[0][0], x[1][0]) for x in want)
                    kind = 'paths' if gp != wp else 'contents'
                    ctx.violation('%s|MISMATCH|%s|%s|%s|%s' % (PROP, kind, rkind, where, 'filtered' if paths else 'unfiltered'),
                                  'changed_notebooks differs from git (%s): got %s, git says %s' % (kind, summarise(got)[:8], summarise(want)[:8]), case)
                if before != after:
                    ctx.violation('%s|CWD-CHANGED|%s|%s' % (PROP, rkind, where), 'working directory changed from %s to %s' % (before, after), case)


# ---- exploration -----------------------------------------------------------------------------------------

_G_TIER = ['quick']


def _shard(sh, ctx):
    mode, items = sh
    tmp = tempfile.mkdtemp(prefix='c17-', dir=isolate.scratch_root())
    try:
        out = []
        for root_kind, history in items:
            repo = build(root_kind, history, tmp)
            if mode == 'expand':
                work = os.path.join(tmp, 'work')
                for ev in events_for(repo):
                    if os.path.exists(work):
                        shutil.rmtree(work)
                    shutil.copytree(repo, work, symlinks=True)     # state copy
                    apply_event(work, ev)
                    ctx.count('transitions')
                    out.append((root_kind, history + [list(ev)], state_key(work)))
            else:
                run_queries(ctx, repo, root_kind, history)
                if _G_TIER[0] == 'thorough' or len(history) <= 2:
                    run_cli_queries(ctx, repo, root_kind, history)
                ctx.sample({'root': root_kind, 'history': history}, rank=(root_kind, len(history), repr(history)))
        ctx.notes.append(json.dumps(out)) if mode == 'expand' else None
    finally:
        os.chdir('/')
        shutil.rmtree(tmp, ignore_errors=True)


def controls():
    isolate.setup_env()
    tmp = tempfile.mkdtemp(prefix='c17c-', dir=isolate.scratch_root())
    try:
        repo = build('full', [['write', 'a.ipynb'], ['write', 'sub/b.ipynb']], tmp)
        want = expected(repo, 'sub', 'HEAD', 'WT', None)
        if len(want) != 2 or want[0][0][0] != 'a.ipynb' or want[1][1][0] != 'sub/b.ipynb':
            raise HarnessError('C17 control: oracle does not list two modified notebooks: %r' % (summarise(want),))
        want = expected(repo, 'sub', 'HEAD', 'WT', ['b.ipynb'])
        if len(want) != 1:
            raise HarnessError('C17 control: path filter relative to cwd')
        repo = build('full', [['mv', 'a.ipynb', 'moved.ipynb'], ['add-all']], tmp)
        want = expected(repo, '.', 'HEAD', 'INDEX', None)
        if len(want) != 1 or want[0][0][0] != 'a.ipynb' or want[0][1][0] != 'moved.ipynb':
            raise HarnessError('C17 control: rename not paired: %r' % (summarise(want),))
    finally:
        shutil.rmtree(tmp, ignore_errors=True)


def run(tier, seed):
    isolate.setup_env()
    depth = 3 if tier == 'quick' else 4
    _G_TIER[0] = tier
    seen = {}
    frontier = []
    tmp = tempfile.mkdtemp(prefix='c17r-', dir=isolate.scratch_root())
    for rk in ('readme', 'full'):
        repo = build(rk, [], tmp)
        k = state_key(repo)
        seen[k] = (rk, [])
        frontier.append((rk, []))
    shutil.rmtree(tmp, ignore_errors=True)
    total = Ctx()
    levels = [len(frontier)]
    all_states = list(frontier)
    for d in range(depth):
        shards = [('expand', ch) for ch in chunked(frontier, max(1, len(frontier) // 1))] if len(frontier) < 16 else \
                 [('expand', ch) for ch in chunked(frontier, 64)]
        shards = [('expand', [it]) for it in frontier]
        ctx = run_shards(_shard, shards, seed=seed, label='%s expand depth %d' % (PROP, d + 1))
        new = []
        for note in ctx.notes:
            if note.startswith('['):
                for rk, hist, key in json.loads(note):
                    if key not in seen:
                        seen[key] = (rk, hist)
                        new.append((rk, hist))
        ctx.notes = [n for n in ctx.notes if not n.startswith('[')]
        total.merge(ctx)
        new.sort(key=lambda x: (x[0], len(x[1]), repr(x[1])))
        frontier = new
        all_states.extend(new)
        levels.append(len(new))
    qshards = [('query', ch) for ch in chunked(all_states, max(1, len(all_states) // 4))] if len(all_states) <= 4 else [('query', [s]) for s in all_states]
    ctx = run_shards(_shard, qshards, seed=seed, label='%s queries' % PROP)
    total.merge(ctx)
    ev = total.counters['evaluations']
    return Result(
        total, level='model_checking',
        rule=('BFS over repository states (canonical key = HEAD~1 tree, HEAD tree, index, working tree) from two initial repositories; in every '
              'state every (ref pair, cwd, path filter) query is evaluated against git plumbing; non-trivial = git reports at least one changed notebook'),
        evaluations=ev, distinct_nontrivial=total.counters['nontrivial'],
        states=len(all_states), transitions=total.counters['transitions'], traces_validated=total.counters['transitions'], exhaustive=True,
        bounds={'tier': tier, 'depth': depth, 'states_per_level': levels, 'cwds': CWDS, 'filters': FILTERS},
        assumptions=['git %s and GitPython as installed; rename detection as `git diff -M` (git\'s default for porcelain diff)' %
                     subprocess.run(['git', '--version'], stdout=subprocess.PIPE).stdout.decode().strip(),
                     'state copy = deterministic rebuild from the event history (fixed author/committer dates)'],
    )


def replay(case, ctx):
    isolate.setup_env()
    tmp = tempfile.mkdtemp(prefix='c17-', dir=isolate.scratch_root())
    repo = build(case['root'], case['history'], tmp)
    if 'cli' in case:
        a, b, paths = case['denotes']
        want = expected(repo, case['cwd'], a, b, paths)
        got, before, after, rc = observed_cli(repo, case['cwd'], case['cli'])
        print('nbdiff', case['cli'], '->', summarise(got), 'git:', summarise(want))
        if got != want:
            ctx.violation('%s|CLI-MISMATCH|replay' % PROP, 'nbdiff examines other pairs than git reports', case)
        if before != after:
            ctx.violation('%s|CLI-CWD-CHANGED|replay' % PROP, 'cwd changed', case)
        os.chdir('/')
        shutil.rmtree(tmp, ignore_errors=True)
        return
    global FILTERS, CWDS
    savedF, savedC = FILTERS, CWDS
    try:
        CWDS = [case['cwd']]
        FILTERS = {case['cwd']: [case['paths']]}
        pairs = [tuple(case['refs'])]
        orig = globals()['ref_pairs']
        globals()['ref_pairs'] = lambda repo: pairs
        try:
            run_queries(ctx, repo, case['root'], case['history'])
        finally:
            globals()['ref_pairs'] = orig
    finally:
        FILTERS, CWDS = savedF, savedC
        os.chdir('/')
        shutil.rmtree(tmp, ignore_errors=True)
