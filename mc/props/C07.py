"""C07 - default merge never drops or invents source text; real conflicts are flagged.

Space : depth-1 x depth-1 triples under the default strategy x text-merge renderer {git merge-file,
        diff3, built-in}; a same-line family where both sides rewrite the same line of an id-aligned
        cell with different text.
Oracle: survival   (lines(l) | lines(r)) - lines(b)  <=  lines(m)
        provenance lines(m) <= lines(b) | lines(l) | lines(r) | closed marker grammar
        flagging   (same-line family) some decision is conflicted and both variants are lines of m.
        lines(nb) = stripped non-blank str.splitlines() of all cell sources.
"""
import copy

from .. import isolate, mergecore as M, universe_nb as U
from ..engine import Ctx, canon, run_shards, chunked, HarnessError
from ..findings import exc_fingerprint
from ..run import Result

PROP = 'C07'

MARKERS = {
    '<<<<<<< local', '=======', '>>>>>>> remote', '||||||| base',
    '<<<<<<< LOCAL CELL DELETED >>>>>>>', '<<<<<<< REMOTE CELL DELETED >>>>>>>',
    '<span style="color:red"><b><<<<<<< local</b></span>',
    '<span style="color:red"><b>=======</b></span>',
    '<span style="color:red"><b>>>>>>>> remote</b></span>',
}


def lines(nb):
    out = set()
    for c in nb['cells']:
        src = c['source']
        if isinstance(src, list):
            src = ''.join(src)
        for ln in src.splitlines():
            s = ln.strip()
            if s:
                out.add(s)
    return out


def classify_line(line, ts):
    """Classifier of an offending line for fingerprints."""
    for m in ('|||||||', '<<<<<<<', '=======', '>>>>>>>'):
        if m in line and line.strip() not in MARKERS:
            return 'glued-marker:%s' % ts
    return 'plain:%s' % ts


def check(ctx, B, L, R, ts, labels, out, family=None, variants=None):
    ctx.count('evaluations')
    if labels[1] != labels[2]:
        ctx.count('nontrivial')
    case = {'base': B, 'local': L, 'remote': R, 'toolset': ts, 'labels': list(labels)}
    if variants:
        case['variants'] = list(variants)
    if out.exc is not None:
        ctx.count('merge_raised(judged by C03)')
        return
    m = U.plain(out.merged)
    lb, ll, lr, lm = lines(B), lines(L), lines(R), lines(m)
    lost = ((ll | lr) - lb) - lm
    for x in sorted(lost):
        # was the line lost because it is glued to a marker?
        glued = any(x in y and y not in MARKERS and any(k in y for k in ('|||||||', '<<<<<<<', '=======', '>>>>>>>')) for y in lm)
        ctx.violation('%s|SURVIVAL|%s' % (PROP, ('glued-marker:%s' % ts) if glued else ('lost:%s' % ts)),
                      'a source line added by one side is missing from the merged notebook: %r' % x, case)
    foreign = lm - lb - ll - lr - MARKERS
    for x in sorted(foreign):
        ctx.violation('%s|PROVENANCE|%s' % (PROP, classify_line(x, ts)),
                      'merged source contains a line that is in none of the inputs and is no conflict marker: %r' % x, case)
    if out.conflicted:
        ctx.count('conflicted')
    if variants:
        ctx.count('same_line_cases')
        t1, t2 = variants
        if not out.conflicted:
            ctx.violation('%s|FLAGGING|no-conflict:%s' % (PROP, ts), 'both sides rewrote the same line differently but no conflict is reported', case)
        if not (t1.strip() in lm and t2.strip() in lm):
            glued = any((t1.strip() in y or t2.strip() in y) and y not in (t1.strip(), t2.strip()) for y in lm)
            ctx.violation('%s|FLAGGING|%s' % (PROP, ('glued-marker:%s' % ts) if glued else ('variant-missing:%s' % ts)),
                          'both variants of the conflicting line must be presented', case)


def same_line_family(tier):
    """Yield (B, L, R, label, (t1, t2))."""
    S = U.seeds()
    srcs = [U.SRC0, U.SRC2, "only line", "only line\n"]
    if tier == 'thorough':
        srcs += ["one\ntwo\nthree\nfour\n", "one\ntwo\nthree\nfour", "a\r\nb\r\nc"]
    texts = ['edited line A', 'changed line B!', None]   # None = similar tweak of the original line
    for si, src in enumerate(srcs):
        base = copy.deepcopy(S['S45'])
        base['cells'][0]['source'] = src
        Ls = src.splitlines(True)
        for i in range(len(Ls)):
            body = Ls[i].rstrip('\r\n')
            term = Ls[i][len(body):]
            reps = [t if t is not None else body + '  # note' for t in texts]
            for a in range(len(reps)):
                for b in range(len(reps)):
                    if a == b:
                        continue
                    l = copy.deepcopy(base)
                    r = copy.deepcopy(base)
                    l['cells'][0]['source'] = ''.join(Ls[:i] + [reps[a] + term] + Ls[i + 1:])
                    r['cells'][0]['source'] = ''.join(Ls[:i] + [reps[b] + term] + Ls[i + 1:])
                    yield base, l, r, 'src%d:line%d:%d/%d' % (si, i, a, b), (reps[a], reps[b])


def multi_line_family(tier):
    """Both sides rewrite the same TWO lines (i < j) of a longer cell differently: near lines give one conflict hunk, distant
    lines give several hunks (external renderers report the number of hunks in their exit status)."""
    S = U.seeds()
    n = 12 if tier == 'quick' else 16
    for unterminated in (False, True):
        Ls = ['line %02d of a longer cell\n' % k for k in range(n)]
        if unterminated:
            Ls[-1] = Ls[-1].rstrip('\n')
        base = copy.deepcopy(S['S45'])
        base['cells'][0]['source'] = ''.join(Ls)
        for i in range(n):
            for j in range(i + 1, n):
                if tier == 'quick' and (j - i) not in (1, 2, 5, 9, n - 1):
                    continue
                l = copy.deepcopy(base)
                r = copy.deepcopy(base)

                def rewrite(tag):
                    out = list(Ls)
                    for k in (i, j):
                        term = '\n' if out[k].endswith('\n') else ''
                        out[k] = '%s rewrite of line %02d%s' % (tag, k, term)
                    return ''.join(out)
                l['cells'][0]['source'] = rewrite('LOCAL')
                r['cells'][0]['source'] = rewrite('REMOTE')
                yield base, l, r, 'two-lines:%d,%d%s' % (i, j, ':unterminated' if unterminated else ''), ('LOCAL rewrite of line %02d' % i, 'REMOTE rewrite of line %02d' % i), \
                    ('LOCAL rewrite of line %02d' % j, 'REMOTE rewrite of line %02d' % j)


def same_sides_family():
    """One cell whose local and remote texts are always the same two texts, merged from every base that differs from them line by line (each line holds
    local's value, remote's value or a third one): the same pair of side texts must be merged afresh for every base.  The cases are run one after
    another in one process, forwards and backwards, so an answer remembered from an earlier base would show."""
    S = U.seeds()
    local = ['alpha = 1', 'beta = 2', 'gamma = 3']
    remote = ['alpha = 100', 'beta = 2', 'gamma = 3']
    cases = []
    for a in ('alpha = 1', 'alpha = 100', 'alpha = 0'):
        for b in ('beta = 2', 'beta = 0'):
            for g in ('gamma = 3', 'gamma = 0'):
                base = copy.deepcopy(S['S45'])
                base['cells'][0]['source'] = '\n'.join([a, b, g])
                l = copy.deepcopy(base); l['cells'][0]['source'] = '\n'.join(local)
                r = copy.deepcopy(base); r['cells'][0]['source'] = '\n'.join(remote)
                cases.append((base, l, r, 'same-sides:%s/%s/%s' % (a[8:], b[7:], g[8:]), ('alpha = 1', 'alpha = 100') if a == 'alpha = 0' else None))
    return cases + cases[::-1]


_G = {}


def _shard(sh, ctx):
    M.install_observers()
    if sh[0] == 'samesides':
        _, ts = sh
        for B, L, R, label, var in _G['samesides']:
            out = M.run_merge(B, L, R, M.DEFAULT, ts)
            check(ctx, B, L, R, ts, ('samesides', label + ':L', label + ':R'), out, variants=var)
        M.drain_observations(ctx)
        return
    if sh[0] == 'twolines':
        _, ts, lo, hi = sh
        for idx, (B, L, R, label, var1, var2) in enumerate(_G['twolines']):
            if lo <= idx < hi:
                out = M.run_merge(B, L, R, M.DEFAULT, ts)
                check(ctx, B, L, R, ts, ('twolines', label + ':L', label + ':R'), out, variants=var1)
                check(ctx, B, L, R, ts, ('twolines', label + ':L', label + ':R'), out, variants=var2)
        M.drain_observations(ctx)
        return
    if sh[0] == 'sameline':
        _, ts, lo, hi = sh
        for idx, (B, L, R, label, var) in enumerate(_G['sameline']):
            if lo <= idx < hi:
                out = M.run_merge(B, L, R, M.DEFAULT, ts)
                check(ctx, B, L, R, ts, ('sameline', label + ':L', label + ':R'), out, variants=var)
                if idx % 17 == 0:
                    ctx.sample({'family': 'same-line', 'label': label, 'variants': list(var), 'toolset': ts, 'conflicted': out.conflicted}, rank=(ts, idx))
        M.drain_observations(ctx)
        return
    _, sname, ts, idxs = sh
    seed, d1 = M.depth1(sname)
    for i in idxs:
        for j in range(len(d1)):
            out = M.run_merge(seed, d1[i][2], d1[j][2], M.DEFAULT, ts)
            check(ctx, seed, d1[i][2], d1[j][2], ts, (sname, d1[i][0], d1[j][0]), out)
        ctx.sample({'seed': sname, 'local_edit': d1[i][0], 'remote_edits': len(d1), 'toolset': ts}, rank=(sname, ts, i))
    M.drain_observations(ctx)


def controls():
    nb = {'cells': [{'source': 'a\n  b  \n\n<<<<<<< local\n'}]}
    if lines(nb) != {'a', 'b', '<<<<<<< local'}:
        raise HarnessError('C07 control: lines()')
    c = Ctx()

    class O(object):
        pass
    o = O()
    o.exc = None
    o.conflicted = True
    B = {'cells': [{'source': 'x\n'}]}
    L = {'cells': [{'source': 'x\ny\n'}]}
    o.merged = {'cells': [{'source': 'x\nfabricated\n<<<<<<< LOCAL\n'}]}
    check(c, B, L, B, 'git', ('c', 'l', 'r'), o)
    fps = set(c.viol)
    if not any(f.startswith('C07|SURVIVAL') for f in fps):
        raise HarnessError('C07 control: dropped line not flagged')
    if not any(f.startswith('C07|PROVENANCE|plain') for f in fps) or not any(f.startswith('C07|PROVENANCE|glued-marker') for f in fps):
        raise HarnessError('C07 control: fabricated line / look-alike marker not flagged: %r' % fps)


def run(tier, seed):
    isolate.setup_env()
    isolate.install_id_counter()
    shards = []
    plan = [('S45', ('git', 'diff3', 'none')), ('Ssim', ('git',))] if tier == 'quick' else \
        [(s, ('git', 'diff3', 'none')) for s in ('S45', 'S44', 'Ssim', 'Sjson', 'Sv2', 'Sempty')]
    info = {}
    plan = plan + [('S45#cellruns3', ('git',) if tier == 'quick' else ('git', 'diff3', 'none')), ('S45#focus:source', ('git', 'diff3', 'none')), ('S45#focus:cellmix0', ('git',)), ('S45#focus:cellmix2', ('git', 'none')), ('S45#lineruns3', ('git', 'none'))]
    for sname, tss in plan:
        _, d1 = M.depth1(sname)
        # only edits that can matter for source text are enumerated on the local side for Ssim in the quick tier
        idx = list(range(len(d1)))
        if tier == 'quick' and sname == 'Ssim':
            idx = [i for i in idx if d1[i][1]['kind'] in ('source', 'cell-insert', 'cell-delete', 'cell-move', 'cell-retype')][::2]
        info['%s' % sname] = '%d x %d edits x %s' % (len(idx), len(d1), '/'.join(tss))
        for ts in tss:
            for ch in chunked(idx, max(1, len(idx) // 2)):
                shards.append(('triples', sname, ts, ch))
    _G['sameline'] = list(same_line_family(tier))
    n = len(_G['sameline'])
    info['same_line_family'] = n
    for ts in ('git', 'diff3', 'none'):
        for lo in range(0, n, 12):
            shards.append(('sameline', ts, lo, lo + 12))
    _G['samesides'] = same_sides_family()
    info['same_sides_family'] = len(_G['samesides'])
    for ts in ('git', 'diff3', 'none'):
        shards.append(('samesides', ts))
    _G['twolines'] = list(multi_line_family(tier))
    info['two_line_family'] = len(_G['twolines'])
    for ts in ('git', 'diff3', 'none'):
        for lo in range(0, len(_G['twolines']), 10):
            shards.append(('twolines', ts, lo, lo + 10))
    ctx = run_shards(_shard, shards, seed=seed, label=PROP)
    ev = ctx.counters['evaluations']
    return Result(
        ctx, level='exploration',
        rule=('every (seed, l, r) with l, r depth-1 states under the default strategy x renderer tool set, plus every same-line rewrite case '
              '(source x line x ordered pair of distinct replacement texts) x tool set; non-trivial = the two sides differ'),
        evaluations=ev, distinct_nontrivial=ctx.counters['nontrivial'],
        states=sum(1 + len(M.depth1(s)[1]) for s, _ in plan) + n, transitions=ev, traces_validated=ev, exhaustive=True,
        bounds=dict(info, tier=tier),
        assumptions=['lines are compared after strip(); the marker grammar is the closed set in MARKERS',
                     'renderer chosen through PATH (nbdime uses shutil.which at call time); which renderer ran is recorded'],
    )


def replay(case, ctx):
    isolate.setup_env()
    isolate.install_id_counter()
    ts = case.get('toolset', 'git')
    out = M.run_merge(case['base'], case['local'], case['remote'], M.DEFAULT, ts)
    check(ctx, case['base'], case['local'], case['remote'], ts, tuple(case.get('labels', ('?', 'l', 'r'))), out, variants=case.get('variants'))
