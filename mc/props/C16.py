"""C16 - terminal rendering of notebooks, diffs and decisions never fails.

Space : notebooks of BFS(seed, 1), their diffs from the seed, decision lists of depth-1 x depth-1 merges x the
        64 ignore-flag subsets x colour on/off x colour-words on/off x renderer {git, diff, built-in difflib,
        selected through PATH and through --no-git / --no-use-diff}; sources containing base64 payloads,
        conflict-marker look-alikes, the literal line `\\ No newline at end of file`, missing trailing newlines
        and non-ASCII text.  Options go through the real nbdiff parser (process_diff_flags +
        prettyprint_config_from_args); a slice also runs nbdiff / nbshow end to end on real files.
Oracle: no exception, no time-out; an empty diff prints nothing; a diff produced by an edit none of whose
        enclosing categories is ignored prints a non-empty body below the header; with colour disabled the
        output contains no ESC character; nbdiff and nbshow return 0.
"""
import io
import itertools
import json
import os
import shutil
import sys
import tempfile

from .. import isolate, mergecore as M, universe_nb as U
from ..engine import Ctx, canon, run_shards, chunked, time_limit, ExecTimeout, HarnessError
from ..findings import exc_fingerprint
from ..run import Result
from .C14 import CATS, FLAG

PROP = 'C16'

RENDERERS = [
    ('git', ()), ('diff3', ()), ('none', ()),         # tool set on PATH, extra flags
    ('git', ('--no-git',)), ('git', ('--no-git', '--no-use-diff')),
]


def option_sets(full):
    subsets = [c for r in range(len(CATS) + 1) for c in itertools.combinations(CATS, r)]
    out = []
    if full:
        for S in subsets:
            for ts, rflags in RENDERERS:
                for color in (True, False):
                    for words in (False, True):
                        out.append((S, ts, rflags, color, words))
    else:
        for S in subsets:
            out.append((S, 'git', (), True, False))
            out.append((S, 'none', (), False, False))
        for ts, rflags in RENDERERS:
            for color in (True, False):
                for words in (False, True):
                    out.append(((), ts, rflags, color, words))
    return out


def build_args(S, rflags, color, words):
    from nbdime import nbdiffapp
    argv = ['--ignore-' + FLAG[c] for c in CATS if c in S] + list(rflags)
    if not color:
        argv.append('--no-color')
    if words:
        argv.append('--color-words')
    so, se = sys.stdout, sys.stderr
    sys.stdout, sys.stderr = io.StringIO(), io.StringIO()
    try:
        return nbdiffapp._build_arg_parser(prog='nbdiff').parse_args(argv + ['a.ipynb', 'b.ipynb']), argv
    finally:
        sys.stdout, sys.stderr = so, se


def visible(tags, S):
    """Does the edit touch a category that is certainly shown under S?  (conservative: structural edits only count
    when nothing at all is ignored)"""
    groups = tags.get('multi') or (tags['cats'],)
    if any(len(g) == 0 for g in groups):
        return not S
    return any(all(c not in S for c in g) for g in groups)


def render_diff_case(ctx, A, B, tags, opt, label):
    import nbdime
    from nbdime.args import process_diff_flags, prettyprint_config_from_args
    from nbdime.prettyprint import pretty_print_notebook_diff, pretty_print_notebook
    S, ts, rflags, color, words = opt
    isolate.reset_globals()
    isolate.use_toolset(ts)
    ctx.count('evaluations')
    ctx.count('nontrivial')
    case = {'A': A, 'B': B, 'label': label, 'options': [list(S), ts, list(rflags), color, words], 'tags': {'cats': list(tags['cats']), 'multi': tags.get('multi')}}
    oname = 'renderer=%s%s,color=%s,words=%s' % (ts, ''.join(rflags), color, words)
    try:
        args, argv = build_args(S, rflags, color, words)
        process_diff_flags(args)
        a, b = U.to_node(A), U.to_node(B)
        with time_limit(60):
            d = nbdime.diff_notebooks(a, b)
            out = io.StringIO()
            cfg = prettyprint_config_from_args(args, out=out)
            pretty_print_notebook_diff('a.ipynb', 'b.ipynb', a, d, cfg)
        text = out.getvalue()
        ctx.seen('renderers', '%s%s' % (ts, ''.join(rflags)))
        if not d:
            if text:
                ctx.violation('%s|EMPTY-DIFF-PRINTS' % PROP, 'an empty diff printed %d characters' % len(text), case)
        else:
            body = text.splitlines()[3:]
            if visible(tags, set(S)) and not any(l.strip() for l in body):
                ctx.violation('%s|NOTHING-PRINTED|%s' % (PROP, '+'.join(tags['cats']) or 'structural'), 'a diff touching a shown category printed no body', case)
        if not color and '\x1b' in text:
            ctx.violation('%s|ANSI-WITHOUT-COLOR|diff|%s' % (PROP, where_ansi(text)), 'colour disabled but the diff rendering contains escape codes', case)
        with time_limit(60):
            out2 = io.StringIO()
            cfg2 = prettyprint_config_from_args(args, out=out2)
            pretty_print_notebook(b, cfg2)
        if not color and '\x1b' in out2.getvalue():
            ctx.violation('%s|ANSI-WITHOUT-COLOR|notebook|%s' % (PROP, where_ansi(out2.getvalue())), 'colour disabled but the notebook rendering contains escape codes', case)
    except ExecTimeout:
        ctx.violation('%s|TIMEOUT|diff' % PROP, 'rendering did not terminate', case)
    except Exception as e:
        # the option class is part of the fingerprint: a failure under one renderer/colour setting must not hide one under another
        ocls = '%s,color=%s,words=%s' % ({'git': 'git', 'diff3': 'diff', 'none': 'difflib'}[ts] if not rflags else ('diff' if rflags == ('--no-git',) else 'difflib'), color, words)
        ctx.violation(exc_fingerprint(PROP, e, 'EXC|diff') + '|' + ocls, 'rendering raised %s: %s (%s)' % (type(e).__name__, e, oname), case)
    finally:
        isolate.restore_path()


def where_ansi(text):
    for line in text.splitlines():
        if '\x1b' in line:
            i = line.index('\x1b')
            return 'pygments' if '\x1b[38;5;' in line or '\x1b[39' in line else 'other'
    return '?'


def render_decisions_case(ctx, B, L, R, cfgm, opt, labels):
    from nbdime.args import process_diff_flags, prettyprint_config_from_args
    from nbdime.prettyprint import pretty_print_merge_decisions
    S, ts, rflags, color, words = opt
    ctx.count('evaluations')
    ctx.count('nontrivial')
    case = {'base': B, 'local': L, 'remote': R, 'config': list(cfgm), 'labels': list(labels), 'options': [list(S), ts, list(rflags), color, words]}
    decs, exc = M.run_decide(B, L, R, cfgm, 'git')
    if exc is not None:
        ctx.count('merge_raised(judged by C03)')
        return
    isolate.use_toolset(ts)
    try:
        args, argv = build_args(S, rflags, color, words)
        with time_limit(60):
            out = io.StringIO()
            cfg = prettyprint_config_from_args(args, out=out)
            pretty_print_merge_decisions(U.to_node(B), decs, cfg)
        text = out.getvalue()
        if not text.strip():
            ctx.violation('%s|DECISIONS-PRINT-NOTHING' % PROP, 'decision rendering printed nothing', case)
        if not color and '\x1b' in text:
            ctx.violation('%s|ANSI-WITHOUT-COLOR|decisions|%s' % (PROP, where_ansi(text)), 'colour disabled but the decision rendering contains escape codes', case)
    except ExecTimeout:
        ctx.violation('%s|TIMEOUT|decisions' % PROP, 'decision rendering did not terminate', case)
    except Exception as e:
        ctx.violation(exc_fingerprint(PROP, e, 'EXC|decisions'), 'decision rendering raised %s: %s' % (type(e).__name__, e), case)
    finally:
        isolate.restore_path()


def cli_case(ctx, A, B, tmp, label, flags):
    from nbdime import nbdiffapp, nbshowapp
    isolate.reset_globals()
    ctx.count('evaluations')
    ctx.count('nontrivial')
    ctx.count('cli_runs')
    case = {'A': A, 'B': B, 'label': label, 'cli': True, 'flags': list(flags)}
    fa, fb = os.path.join(tmp, 'a.ipynb'), os.path.join(tmp, 'b.ipynb')
    with open(fa, 'w', encoding='utf8') as f:
        json.dump(A, f)
    with open(fb, 'w', encoding='utf8') as f:
        json.dump(B, f)
    # nbshow has no --no-color option: it only gets the flags it defines
    for name, call in (('nbdiff', lambda: nbdiffapp.main(list(flags) + [fa, fb])), ('nbshow', lambda: nbshowapp.main([f for f in flags if f != '--no-color'] + [fb]))):
        so, se = sys.stdout, sys.stderr
        buf = io.StringIO()
        sys.stdout, sys.stderr = buf, io.StringIO()
        try:
            with time_limit(60):
                rc = call()
            if rc not in (0, None):
                ctx.violation('%s|CLI|%s|status-%s' % (PROP, name, rc), '%s returned %r' % (name, rc), case)
            if name == 'nbdiff' and '--no-color' in flags and '\x1b' in buf.getvalue():
                ctx.violation('%s|ANSI-WITHOUT-COLOR|%s|%s' % (PROP, name, where_ansi(buf.getvalue())), '%s --no-color wrote escape codes' % name, case)
        except SystemExit as e:
            if e.code not in (0, None):
                ctx.violation('%s|CLI|%s|exit-%s' % (PROP, name, e.code), '%s exited with %r' % (name, e.code), case)
        except ExecTimeout:
            ctx.violation('%s|TIMEOUT|%s' % (PROP, name), '%s did not terminate' % name, case)
        except Exception as e:
            ctx.violation(exc_fingerprint(PROP, e, 'EXC|' + name), '%s raised %s: %s' % (name, type(e).__name__, e), case)
        finally:
            sys.stdout, sys.stderr = so, se


def special_pairs():
    """Pairs aimed at the post-processing of external tool output."""
    S = U.seeds()
    out = []
    base = json.loads(json.dumps(S['S45']))
    nonl = "\\ No newline at end of file\n"
    for k in (1, 2, 3, 4):
        a = json.loads(json.dumps(base))
        a['cells'][0]['source'] = nonl * k + "x = 1"
        b = json.loads(json.dumps(a))
        b['cells'][0]['source'] = nonl * k + "x = 2"
        out.append(('nonl-literal-x%d' % k, {'cats': ('sources',), 'kind': 'source'}, a, b))
    a = json.loads(json.dumps(base))
    a['cells'][0]['source'] = "<<<<<<< local\n=======\n>>>>>>> remote\n@@ -1 +1 @@\n--- a\n+++ b\nnaïve ☃"
    b = json.loads(json.dumps(a))
    b['cells'][0]['source'] = "<<<<<<< local\n=======\n>>>>>>> remote\n@@ -1 +1 @@\n--- a\n+++ c\nnaïve ☃ é"
    out.append(('diff-syntax-lookalikes', {'cats': ('sources',), 'kind': 'source'}, a, b))
    return out


_G = {}


def _shard(sh, ctx):
    kind = sh[0]
    if kind == 'diff':
        _, items, opts = sh
        for (label, tags, A, B) in items:
            for opt in opts:
                render_diff_case(ctx, A, B, tags, opt, label)
        ctx.sample({'pairs': [i[0] for i in items][:4], 'option_sets': len(opts)}, rank=items[0][0])
    elif kind == 'decisions':
        _, triples, opts = sh
        for (B, L, R, cfgm, labels) in triples:
            for opt in opts:
                render_decisions_case(ctx, B, L, R, cfgm, opt, labels)
    elif kind == 'cli':
        _, items = sh
        tmp = tempfile.mkdtemp(prefix='c16-', dir=isolate.scratch_root())
        try:
            for (label, tags, A, B) in items:
                cli_case(ctx, A, B, tmp, label, ())
                cli_case(ctx, A, B, tmp, label, ('--no-color',))
        finally:
            shutil.rmtree(tmp, ignore_errors=True)


def controls():
    if visible({'cats': ('metadata', 'outputs')}, {'metadata'}) or not visible({'cats': ('sources',)}, {'outputs'}) or visible({'cats': ()}, {'id'}):
        raise HarnessError('C16 control: visible()')
    if len(option_sets(True)) != 64 * 5 * 4:
        raise HarnessError('C16 control: option product')


def run(tier, seed):
    isolate.setup_env()
    isolate.install_id_counter()
    S = U.seeds()
    full_opts = option_sets(True)
    light_opts = option_sets(False)
    shards = []
    # slice for the full option product: a few edits of every kind + the special pairs
    seed45, d45 = M.depth1('S45')
    by_kind = {}
    for l, t, n in d45:
        by_kind.setdefault(t['kind'], []).append((l, t, seed45, n))
    slice_items = []
    per_kind = 2 if tier == 'quick' else 6
    for k in sorted(by_kind):
        slice_items.extend(by_kind[k][:per_kind])
    ssim, dsim = M.depth1('Ssim')
    slice_items += [(l, t, ssim, n) for l, t, n in dsim if l.startswith('src@4') or l.startswith('src@3')][:8 if tier == 'quick' else 40]
    slice_items += special_pairs()
    for it in slice_items:
        for ch in chunked(full_opts, 160):
            shards.append(('diff', [it], ch))
    # full depth-1 slice under the light option sets
    names = ('S45', 'Sjson', 'Ssim', 'S44') if tier == 'quick' else tuple(sorted(S))
    total_pairs = len(slice_items)
    # threshold family: payload sizes around the cut-offs of the differ and of the renderer (base64 payloads longer than 64 characters are snipped)
    thr = tuple('Sthr#%d' % n for n in ((9, 10, 63, 64, 65, 1000) if tier == 'quick' else (9, 10, 11, 63, 64, 65, 999, 1000, 1001)))
    for n in names + thr:
        sd, d1 = M.depth1(n)
        items = [(l, t, sd, x) for l, t, x in d1]
        total_pairs += len(items)
        for ch in chunked(items, 4):
            shards.append(('diff', ch, light_opts if tier == 'quick' else full_opts[::3]))
        for ch in chunked(items[::3] if tier == 'quick' else items, 8):
            shards.append(('cli', ch))
    # decisions
    by = {l: n for l, t, n in d45}
    pairs = [('src@0:repl1:a', 'src@0:repl1:b'), ('out@0:append:Ostream', 'out@0:append:Oerr'), ('cell-delete@0', 'src@0:tweak1'),
             ('cell-insert:C1@3', 'cell-insert:C2@3'), ('att@1:add:b1', 'att@1:add:b2'), ('nbmeta:kspec-name', 'nbmeta:kspec-name:b'),
             ('src@0:append-unterminated', 'src@0:append-unterminated:b'), ('cell-retype@0:markdown', 'out@0:clear')]
    triples = []
    for a, b in pairs:
        for cfgm in (M.MERGETOOL, M.DEFAULT):
            triples.append((seed45, by[a], by[b], cfgm, ('S45', a, b)))
    # decisions at the notebook root (nbformat_minor changed by one or both sides)
    seed44, d44 = M.depth1('S44')
    by44 = {l: n for l, t, n in d44}
    for a, b in (('minor:3', 'minor:2'), ('minor:3', 'src@0:tweak1'), ('upgrade45', 'minor:3')):
        for cfgm in (M.MERGETOOL, M.DEFAULT):
            triples.append((seed44, by44[a], by44[b], cfgm, ('S44', a, b)))
    if tier == 'thorough':
        for i in range(0, len(d45), 3):
            j = (i * 7 + 3) % len(d45)
            triples.append((seed45, d45[i][2], d45[j][2], M.MERGETOOL, ('S45', d45[i][0], d45[j][0])))
    for tr in triples:
        shards.append(('decisions', [tr], light_opts if tier == 'quick' else full_opts[::2]))
    ctx = run_shards(_shard, shards, seed=seed, label=PROP)
    ev = ctx.counters['evaluations']
    return Result(
        ctx, level='exploration',
        rule=('one evaluation = one rendering of one (notebook pair | decision list) under one option set; full product of 64 ignore subsets x 5 renderer '
              'selections x colour x colour-words on a slice with every edit kind and the special sources, reduced option sets on the complete depth-1 '
              'slices; nbdiff/nbshow end to end on real files; every case is a distinct (input, options) pair'),
        evaluations=ev, distinct_nontrivial=ctx.counters['nontrivial'],
        states=total_pairs + len(triples), transitions=ev, traces_validated=ev, exhaustive=True,
        bounds={'tier': tier, 'full_option_sets': len(full_opts), 'light_option_sets': len(light_opts), 'slice_pairs': len(slice_items),
                'depth1_seeds': list(names + thr), 'decision_lists': len(triples)},
        assumptions=['renderer availability is controlled through PATH (nbdime calls shutil.which at render time)',
                     'the "prints something" clause is only demanded when the edit lies in categories that are all shown, structural edits only when nothing is ignored'],
    )


def replay(case, ctx):
    isolate.setup_env()
    isolate.install_id_counter()
    if case.get('cli'):
        tmp = tempfile.mkdtemp(prefix='c16-', dir=isolate.scratch_root())
        cli_case(ctx, case['A'], case['B'], tmp, case.get('label', ''), tuple(case.get('flags', ())))
        return
    o = case['options']
    opt = (tuple(o[0]), o[1], tuple(o[2]), o[3], o[4])
    if 'base' in case:
        render_decisions_case(ctx, case['base'], case['local'], case['remote'], tuple(case['config']), opt, tuple(case.get('labels', ())))
    else:
        tags = {'cats': tuple(case['tags']['cats']), 'multi': case['tags'].get('multi')}
        render_diff_case(ctx, case['A'], case['B'], tags, opt, case.get('label', ''))
