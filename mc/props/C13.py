"""C13 - diff, patch, merge and rendering never modify their inputs.

Space : every call of diff, diff_notebooks, patch, patch_notebook, decide_merge, merge_notebooks,
        decide_notebook_merge, apply_decisions, pretty_print_notebook / _notebook_diff /
        _merge_decisions made over slices of the C01-C03 input spaces.
Oracle: canonical JSON of every notebook / diff / decision-list argument equal before and after the call;
        aliasing clause: no list/dict reachable from the result is, by identity, reachable from an argument
        (the exhaustive form of "mutating the result must not alter an input that is used again").
"""
import io
import json

from .. import isolate, mergecore as M, universe_nb as U, universe_json as UJ
from ..engine import Ctx, canon, run_shards, chunked, time_limit, HarnessError
from ..run import Result

PROP = 'C13'


def containers(x, acc=None):
    if acc is None:
        acc = {}
    if isinstance(x, (dict, list)):
        if id(x) in acc:
            return acc
        acc[id(x)] = x
        for v in (x.values() if isinstance(x, dict) else x):
            containers(v, acc)
    return acc


def alias_regions(result, arg_ids):
    """All places where `result` shares a list/dict with an argument, as region -> first starred path.
    A region names the part of the result: tuple element, decision field, diff payload."""
    regions = {}
    stack = [(result, '', 'top')]
    seen = set()
    while stack:
        x, p, region = stack.pop()
        if isinstance(x, tuple):
            for i, v in enumerate(x):
                stack.append((v, p + '/(%d)' % i, 'result[%d]' % i))
            continue
        if not isinstance(x, (dict, list)) or id(x) in seen:
            continue
        seen.add(id(x))
        if id(x) in arg_ids:
            regions.setdefault(region, p or '/')
            continue
        if isinstance(x, dict):
            for k, v in x.items():
                r = region
                if k in ('local_diff', 'remote_diff', 'custom_diff', 'similar_insert'):
                    r = (region + '.' if region.startswith('result[') else '') + k
                elif k in ('valuelist', 'value') and not region.endswith('.payload'):
                    r = region + '.payload'
                stack.append((v, p + '/' + (k if not str(k).lstrip('-').isdigit() else '*'), r))
        else:
            for v in x:
                stack.append((v, p + '/*', region))
    return regions


def guarded(ctx, fname, call, args, case, check_alias=True):
    """args: ordered dict name -> object passed to the call."""
    ctx.count('evaluations')
    ctx.count('calls:' + fname)
    before = {k: canon(v) for k, v in args.items()}
    try:
        with time_limit(30):
            res = call()
    except Exception as e:
        ctx.count('call_raised:%s(%s)' % (fname, type(e).__name__))
        res = None
    for k, v in args.items():
        try:
            after = canon(v)
        except Exception:
            after = '<unserialisable>'
        if after != before[k]:
            ctx.violation('%s|MUTATED|%s|%s' % (PROP, fname, k), '%s modified its argument %r' % (fname, k), case)
    if check_alias and res is not None:
        for k, v in args.items():
            ids = set(containers(v))
            for region, p in sorted(alias_regions(res, ids).items()):
                ctx.count('aliased:%s:%s:%s' % (fname, k, region))
                ctx.violation('%s|ALIAS|%s|%s|%s' % (PROP, fname, k, region),
                              'the result of %s shares a mutable container with its argument %r (in %s, first at result%s)' % (fname, k, region, p), case)
    return res


_G = {}


def pp_config(**kw):
    from nbdime.prettyprint import PrettyPrintConfig
    return PrettyPrintConfig(out=io.StringIO(), **kw)


def generic_case(ctx, a, b, fam):
    import nbdime
    case = {'a': a, 'b': b, 'family': fam}
    a1, b1 = json.loads(json.dumps(a)), json.loads(json.dumps(b))
    d = guarded(ctx, 'diff', lambda: nbdime.diff(a1, b1), {'a': a1, 'b': b1}, case)
    if d is not None:
        guarded(ctx, 'patch', lambda: nbdime.patch(a1, d), {'obj': a1, 'diff': d}, case)


def generic_merge_case(ctx, b, l, r, fam):
    import nbdime
    from nbdime.merging.decisions import apply_decisions
    case = {'base': b, 'local': l, 'remote': r, 'family': fam, 'generic': True}
    b1, l1, r1 = (json.loads(json.dumps(x)) for x in (b, l, r))
    decs = guarded(ctx, 'decide_merge', lambda: nbdime.decide_merge(b1, l1, r1), {'base': b1, 'local': l1, 'remote': r1}, case)
    if decs is not None:
        guarded(ctx, 'apply_decisions', lambda: apply_decisions(b1, decs), {'base': b1, 'decisions': decs}, case)


def reordered(dj):
    """The same diff with the entries of every mapping-level diff in reverse order (plain JSON in, plain JSON out).  The diff format puts no order on
    the entries of an object diff (patch accepts any order), so this is as valid an input as the one nbdime produced; sequence diffs keep their order."""
    out = []
    for e in dj:
        e = dict(e)
        if e.get('op') == 'patch':
            e['diff'] = reordered(e['diff'])
        out.append(e)
    if out and all(isinstance(e['key'], str) for e in out):
        out.reverse()
    return out


def nb_case(ctx, A, B, label):
    import nbdime
    from nbdime.prettyprint import pretty_print_notebook_diff, pretty_print_notebook
    isolate.reset_globals()
    case = {'A': A, 'B': B, 'label': label}
    a, b = U.to_node(A), U.to_node(B)
    d = guarded(ctx, 'diff_notebooks', lambda: nbdime.diff_notebooks(a, b), {'a': a, 'b': b}, case)
    if d is None:
        return
    guarded(ctx, 'patch_notebook', lambda: nbdime.patch_notebook(a, d), {'nb': a, 'diff': d}, case)
    for ts in ('git', 'none'):
        isolate.use_toolset(ts)
        try:
            cfg = pp_config(use_color=(ts == 'git'))
            guarded(ctx, 'pretty_print_notebook_diff', lambda: pretty_print_notebook_diff('a.ipynb', 'b.ipynb', a, d, cfg),
                    {'a': a, 'diff': d}, case, check_alias=False)
        finally:
            isolate.restore_path()
    cfg = pp_config(use_color=False)
    guarded(ctx, 'pretty_print_notebook', lambda: pretty_print_notebook(b, cfg), {'nb': b}, case, check_alias=False)
    # the same diff as a caller other than nbdime's differ may hand it in: object-level entries in another order
    from nbdime.diff_utils import to_diffentry_dicts
    dj = json.loads(json.dumps(d))
    rj = reordered(dj)
    if rj != dj:
        ctx.count('reordered_diffs')
        d2 = to_diffentry_dicts(rj)
        case2 = dict(case, reordered_diff=True)
        cfg = pp_config(use_color=False)
        guarded(ctx, 'pretty_print_notebook_diff', lambda: pretty_print_notebook_diff('a.ipynb', 'b.ipynb', a, d2, cfg), {'a': a, 'diff': d2}, case2, check_alias=False)
        guarded(ctx, 'patch_notebook', lambda: nbdime.patch_notebook(a, d2), {'nb': a, 'diff': d2}, case2, check_alias=False)


def merge_case(ctx, B, L, R, cfg, labels):
    from nbdime.merging.notebooks import merge_notebooks, decide_notebook_merge
    from nbdime.merging.decisions import apply_decisions
    from nbdime.prettyprint import pretty_print_merge_decisions
    isolate.reset_globals()
    isolate.use_toolset('git')
    try:
        case = {'base': B, 'local': L, 'remote': R, 'config': list(cfg), 'labels': list(labels)}
        b, l, r = U.to_node(B), U.to_node(L), U.to_node(R)
        args = M.args_for(cfg)
        guarded(ctx, 'merge_notebooks', lambda: merge_notebooks(b, l, r, args), {'base': b, 'local': l, 'remote': r}, case)
        decs = guarded(ctx, 'decide_notebook_merge', lambda: decide_notebook_merge(b, l, r, args), {'base': b, 'local': l, 'remote': r}, case)
        if decs is not None:
            guarded(ctx, 'apply_decisions', lambda: apply_decisions(b, decs), {'base': b, 'decisions': decs}, case)
            pc = pp_config(use_color=False)
            guarded(ctx, 'pretty_print_merge_decisions', lambda: pretty_print_merge_decisions(b, decs, pc), {'base': b, 'decisions': decs}, case, check_alias=False)
    finally:
        isolate.restore_path()


def _shard(sh, ctx):
    kind = sh[0]
    if kind == 'generic':
        _, name, idxs = sh
        docs = _G['fam'][name]
        for i in idxs:
            for b in docs:
                generic_case(ctx, docs[i], b, name)
                if canon(docs[i]) != canon(b):
                    ctx.count('nontrivial')
        ctx.sample({'family': name, 'a': docs[idxs[0]], 'functions': ['diff', 'patch']}, rank=(name, idxs[0]))
    elif kind == 'gmerge':
        _, name, idxs = sh
        docs = _G['mfam'][name]
        for i in idxs:
            for l in docs:
                for r in docs:
                    generic_merge_case(ctx, docs[i], l, r, name)
                    ctx.count('nontrivial')
    elif kind == 'nb':
        _, sname, idxs = sh
        seed, d1 = M.depth1(sname)
        for i in idxs:
            nb_case(ctx, seed, d1[i][2], '%s->%s' % (sname, d1[i][0]))
            nb_case(ctx, d1[i][2], d1[(i * 5 + 1) % len(d1)][2], '%s:%s|%s' % (sname, d1[i][0], d1[(i * 5 + 1) % len(d1)][0]))
            ctx.count('nontrivial', 2)
        ctx.sample({'seed': sname, 'edit': d1[idxs[0]][0], 'functions': ['diff_notebooks', 'patch_notebook', 'pretty_print_*']}, rank=(sname, idxs[0]))
    elif kind == 'merge':
        _, sname, idxs, cfgs, step = sh
        seed, d1 = M.depth1(sname)
        for i in idxs:
            for j in range(i % step, len(d1), step):
                for cfg in cfgs:
                    merge_case(ctx, seed, d1[i][2], d1[j][2], cfg, (sname, d1[i][0], d1[j][0]))
                    ctx.count('nontrivial')


def controls():
    import nbdime
    c = Ctx()
    a = {'k': [1, 2]}

    def bad():
        a['k'].append(3)
        return {'x': a['k']}
    guarded(c, 'control', bad, {'a': a}, {'control': True})
    if 'C13|MUTATED|control|a' not in c.viol or not any(f.startswith('C13|ALIAS|control|a') for f in c.viol):
        raise HarnessError('C13 control: mutation / aliasing not detected: %r' % list(c.viol))
    c = Ctx()
    guarded(c, 'control', lambda: {'x': [1]}, {'a': {'k': [1]}}, {'control': True})
    if c.viol:
        raise HarnessError('C13 control: clean call flagged')


def run(tier, seed):
    isolate.setup_env()
    isolate.install_id_counter()
    fam = UJ.families('quick')
    keep = ['lists3', 'objects', 'strings', 'het', 'typeobj'] + (['trees:dict', 'trees:list'] if tier == 'thorough' else [])
    _G['fam'] = {k: fam[k] for k in keep}
    _G['mfam'] = {k: v for k, v in UJ.merge_families('quick').items() if k in ('objects1', 'het2', 'strings2') or tier == 'thorough'}
    shards = []
    for name, docs in sorted(_G['fam'].items()):
        for ch in chunked(range(len(docs)), max(1, len(docs) // 4)):
            shards.append(('generic', name, ch))
    for name, docs in sorted(_G['mfam'].items()):
        for ch in chunked(range(len(docs)), max(1, len(docs) // 2)):
            shards.append(('gmerge', name, ch))
    seeds = ('S45', 'S44', 'Sjson', 'Ssim', 'Sv2') if tier == 'quick' else tuple(sorted(U.seeds()))
    for sname in seeds:
        _, d1 = M.depth1(sname)
        for ch in chunked(range(len(d1)), 6):
            shards.append(('nb', sname, ch))
    plan = [('S45', (M.DEFAULT, M.MERGETOOL, ('use-local', None, None, True), ('inline', None, 'clear-all', True), ('inline', 'use-remote', 'remove', True)), 3 if tier == 'quick' else 1),
            ('Sjson', (M.DEFAULT,), 4 if tier == 'quick' else 1)]
    plan += [('S45#focus:outputs', (M.DEFAULT, M.MERGETOOL, ('inline', None, 'remove', True)), 1), ('S45#focus:source', (M.DEFAULT, M.MERGETOOL), 2),
             ('S45#focus:meta', (M.DEFAULT, M.MERGETOOL), 2), ('S45#focus:attachments', (M.DEFAULT,), 1), ('S45#outruns2', (M.DEFAULT,), 1), ('S45#focus:cellmix2', (M.DEFAULT,), 1), ('S44#focus:upgrade', (M.DEFAULT, M.MERGETOOL), 1)]
    if tier == 'thorough':
        plan += [('S44', tuple(M.KEY_CONFIGS), 1), ('Ssim', (M.DEFAULT, M.MERGETOOL), 1), ('S45#cellruns3', (M.DEFAULT, M.MERGETOOL), 1)]
    for sname, cfgs, step in plan:
        _, d1 = M.depth1(sname)
        for i in range(len(d1)):
            shards.append(('merge', sname, (i,), cfgs, step))
    ctx = run_shards(_shard, shards, seed=seed, label=PROP)
    ev = ctx.counters['evaluations']
    return Result(
        ctx, level='exploration',
        rule=('one evaluation = one guarded call of a public function on inputs drawn exhaustively from the listed slices (generic pairs and '
              'triples, notebook pairs seed->edit and edit->edit, merge triples x configurations); non-trivial = the inputs differ from each other'),
        evaluations=ev, distinct_nontrivial=ctx.counters['nontrivial'],
        states=sum(len(v) for v in _G['fam'].values()) + sum(1 + len(M.depth1(s)[1]) for s in seeds), transitions=ev, traces_validated=ev, exhaustive=True,
        bounds={'tier': tier, 'generic_families': {k: len(v) for k, v in _G['fam'].items()}, 'merge_families': {k: len(v) for k, v in _G['mfam'].items()},
                'notebook_seeds': list(seeds), 'merge_plan': [(s, [M.cfg_name(c) for c in cf], 'every %d-th remote edit' % st) for s, cf, st in plan]},
        assumptions=['key order inside objects is not part of a JSON value (sort_keys canonical form)',
                     'aliasing is judged on list/dict identity; strings and numbers are immutable'],
    )


def replay(case, ctx):
    isolate.setup_env()
    isolate.install_id_counter()
    if 'a' in case:
        generic_case(ctx, case['a'], case['b'], case.get('family', ''))
    elif case.get('generic'):
        generic_merge_case(ctx, case['base'], case['local'], case['remote'], case.get('family', ''))
    elif 'A' in case:
        nb_case(ctx, case['A'], case['B'], case.get('label', ''))
    else:
        merge_case(ctx, case['base'], case['local'], case['remote'], tuple(case['config']), tuple(case.get('labels', ())))
