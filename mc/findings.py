"""Fingerprints, known-findings matching and replay files."""
import hashlib
import json
import os
import re
import traceback

ROOT = os.environ.get('VERIF_ROOT', os.path.dirname(os.path.dirname(os.path.abspath(__file__))))
REPO = os.environ.get('VERIF_REPO', '/repo')
KNOWN_FILE = os.path.join(ROOT, 'known_findings.jsonl')

_norm_res = [
    (re.compile(r"0x[0-9a-fA-F]+"), '<ptr>'),
    (re.compile(r"'(?:[^'\\]|\\.)*'"), '<s>'),
    (re.compile(r'"(?:[^"\\]|\\.)*"'), '<s>'),
    (re.compile(r"-?\d+(?:\.\d+)?"), '<n>'),
    (re.compile(r"\s+"), ' '),
]


def normalise_message(msg, limit=160):
    msg = str(msg)
    for rx, rep in _norm_res:
        msg = rx.sub(rep, msg)
    return msg.strip()[:limit]


def innermost_repo_frame(exc):
    """(relative file, function) of the innermost traceback frame that lies inside the repo."""
    tb = traceback.extract_tb(exc.__traceback__)
    repo = os.path.realpath(REPO) + os.sep
    best = None
    for fr in tb:
        fn = os.path.realpath(fr.filename)
        if fn.startswith(repo):
            best = (fn[len(repo):], fr.name)
    if best is None and tb:
        fr = tb[-1]
        best = (os.path.basename(fr.filename), fr.name)
    return best or ('?', '?')


def exc_fingerprint(prop, exc, clause='EXC'):
    f, fn = innermost_repo_frame(exc)
    return '%s|%s|%s|%s:%s|%s' % (prop, clause, type(exc).__name__, f, fn, normalise_message(exc))


def load_known():
    recs = []
    if os.path.exists(KNOWN_FILE):
        with open(KNOWN_FILE) as f:
            for line in f:
                line = line.strip()
                if line and not line.startswith('#'):
                    recs.append(json.loads(line))
    return recs


def match_known(prop, fingerprint, recs):
    """Return the record that lists this fingerprint as a *known* (unrepaired) finding, if any.

    `fixed` entries suppress nothing."""
    for r in recs:
        if r.get('property') != prop or r.get('status') != 'known':
            continue
        if r.get('fingerprint') == fingerprint:
            return r
        rx = r.get('fingerprint_re')
        if rx and re.fullmatch(rx, fingerprint):
            return r
    return None


def replay_path(prop, fingerprint):
    h = hashlib.sha1(fingerprint.encode('utf8')).hexdigest()[:12]
    return os.path.join(ROOT, 'replays', prop, h + '.json')


def write_replay(prop, fingerprint, what, case, count):
    p = replay_path(prop, fingerprint)
    os.makedirs(os.path.dirname(p), exist_ok=True)
    doc = dict(property=prop, fingerprint=fingerprint, what=what, case=case)
    text = json.dumps(doc, indent=1, sort_keys=True, ensure_ascii=True)
    old = None
    if os.path.exists(p):
        with open(p) as f:
            old = f.read()
    if old != text:
        with open(p, 'w') as f:
            f.write(text)
    return p
