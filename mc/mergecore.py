"""Shared machinery of the merge family (C03-C07, C09, C10, C13): configurations, one merge
execution with observation wrappers, triple spaces."""
import argparse
import copy
import itertools
import json

from . import isolate
from . import universe_nb as U
from .engine import canon, time_limit

MERGE_STRATEGIES = ('inline', 'use-base', 'use-local', 'use-remote')
INPUT_STRATEGIES = (None, 'inline', 'use-base', 'use-local', 'use-remote')
OUTPUT_STRATEGIES = (None, 'inline', 'use-base', 'use-local', 'use-remote', 'remove', 'clear-all')


def all_configs():
    """The 4 x 5 x 7 x 2 CLI combinations plus the web tool's 'mergetool' strategy x transients."""
    out = []
    for m, i, o, t in itertools.product(MERGE_STRATEGIES, INPUT_STRATEGIES, OUTPUT_STRATEGIES, (True, False)):
        out.append((m, i, o, t))
    out.append(('mergetool', None, None, True))
    out.append(('mergetool', None, None, False))
    return out


# configurations that differ in code path (DESIGN C03 (b))
KEY_CONFIGS = [
    ('inline', None, None, True),
    ('use-base', None, None, True),
    ('use-local', None, None, True),
    ('use-remote', None, None, True),
    ('mergetool', None, None, True),
    ('inline', None, 'remove', True),
    ('inline', None, 'clear-all', True),
    ('inline', None, 'use-local', True),
    ('inline', 'use-remote', None, True),
    ('use-base', 'inline', None, True),
    ('inline', None, None, False),
    ('use-local', 'inline', 'inline', True),
]

DEFAULT = KEY_CONFIGS[0]
MERGETOOL = KEY_CONFIGS[4]


def cfg_name(cfg):
    m, i, o, t = cfg
    return '%s/in=%s/out=%s/%s' % (m, i, o, 'T' if t else 'noT')


_args_cache = {}


def args_for(cfg):
    """argparse.Namespace exactly as the CLI (or the web handler for 'mergetool') builds it."""
    if cfg not in _args_cache:
        from nbdime.nbmergeapp import _build_arg_parser
        m, i, o, t = cfg
        argv = []
        if m != 'mergetool':
            argv += ['--merge-strategy', m]
        if i:
            argv += ['--input-strategy', i]
        if o:
            argv += ['--output-strategy', o]
        if not t:
            argv += ['--no-ignore-transients']
        argv += ['b.ipynb', 'l.ipynb', 'r.ipynb']
        ns = _build_arg_parser().parse_args(argv)
        if m == 'mergetool':
            ns.merge_strategy = 'mergetool'
        _args_cache[cfg] = ns
    return copy.copy(_args_cache[cfg])


# ---- observation wrappers (observe, never alter) ------------------------------------------------
_obs = {'chunks': set(), 'renderers': set(), 'actions': set()}
_installed = [False]


def install_observers():
    if _installed[0]:
        return
    _installed[0] = True
    import nbdime.merging.generic as mg
    import nbdime.prettyprint as pp
    orig_ct = mg.chunk_typename

    def chunk_typename(diffs):
        r = orig_ct(diffs)
        _obs['_cur'] = _obs.get('_cur', '') + ''.join(r) + '/'
        if _obs['_cur'].count('/') == 2:
            _obs['chunks'].add(_obs['_cur'][:-1])
            _obs['_cur'] = ''
        return r
    mg.chunk_typename = chunk_typename
    for name in ('merge_render_with_git', 'merge_render_with_diff3', 'builtin_merge_render'):
        orig = getattr(pp, name)

        def wrap(orig=orig, name=name):
            def f(*a, **k):
                _obs['renderers'].add(name)
                return orig(*a, **k)
            return f
        setattr(pp, name, wrap())


def drain_observations(ctx):
    for c in _obs['chunks']:
        ctx.seen('chunk_types', c)
    for r in _obs['renderers']:
        ctx.seen('renderers', r)
    _obs['chunks'].clear()
    _obs['renderers'].clear()
    _obs['_cur'] = ''


class MergeOutcome(object):
    __slots__ = ('merged', 'decisions', 'exc', 'conflicted')


def run_merge(B, L, R, cfg, toolset='git', limit=30):
    """One execution of merge_notebooks on fresh NotebookNode copies with reset globals."""
    from nbdime.merging.notebooks import merge_notebooks
    isolate.reset_globals()
    isolate.use_toolset(toolset)
    _obs['_cur'] = ''
    out = MergeOutcome()
    out.merged = out.decisions = out.exc = None
    out.conflicted = None
    b, l, r = U.to_node(B), U.to_node(L), U.to_node(R)
    try:
        with time_limit(limit):
            merged, decisions = merge_notebooks(b, l, r, args_for(cfg))
        out.merged = merged
        out.decisions = decisions
        out.conflicted = any(d.conflict for d in decisions)
    except Exception as e:   # the property modules decide what an exception means
        out.exc = e
    finally:
        isolate.restore_path()
    return out


def run_decide(B, L, R, cfg, toolset='git', limit=30):
    from nbdime.merging.notebooks import decide_notebook_merge
    isolate.reset_globals()
    isolate.use_toolset(toolset)
    b, l, r = U.to_node(B), U.to_node(L), U.to_node(R)
    try:
        with time_limit(limit):
            return decide_notebook_merge(b, l, r, args_for(cfg)), None
    except Exception as e:
        return None, e
    finally:
        isolate.restore_path()


def json_roundtrip(x):
    return json.loads(json.dumps(x))


# ---- triple spaces ----------------------------------------------------------------------------------

_d1_cache = {}
_split = {}     # pseudo seed -> number of leading one-edit states (the rest are two-edit states)


def depth1(seed_name):
    """(seed, [(label, tags, nb)]) of the one-edit states of a seed.  Pseudo seeds 'S45#cellruns3' / 'S45#outruns2' give the
    insert-run families (runs of up to n pool cells at the end / pool outputs appended to cell 0)."""
    if seed_name not in _d1_cache:
        S = U.seeds()
        if '#' in seed_name:
            base, fam = seed_name.split('#')
            seed = S[base] if base != 'Sthr' else None
            if base == 'Sthr':
                # threshold family: payload size fam around one of the differ's size cut-offs
                seed, states = U.threshold_family(int(fam))
            elif fam == 'compact2':
                one, two = U.two_edits(seed, QUICK_COMPACT)
                states = one + two
                _split[seed_name] = len(one)
            elif fam.startswith('focus:'):
                states = U.focus2(seed, fam.split(':')[1])
            elif fam.startswith('lineruns'):
                states = U.line_runs(seed, 0, 1, int(fam[-1]))
            elif fam.startswith('cellruns'):
                states = U.cell_runs(seed, len(seed['cells']), int(fam[-1]))
            else:
                states = U.output_runs(seed, 0, int(fam[-1]))
            for l, t, nb in states[:3] + states[-3:]:
                assert U.valid(nb), l
            _d1_cache[seed_name] = (seed, states)
        else:
            _d1_cache[seed_name] = (S[seed_name], U.depth1(S[seed_name]))
    return _d1_cache[seed_name]


COMPACT_LABELS = {
    # compact alphabet: every field kind has a conflicting pair
    'src@0:repl1:a', 'src@0:repl1:b', 'src@0:del1', 'src@0:append-unterminated', 'src@0:append-unterminated:b',
    'out@0:append:Ostream', 'out@0:append:Oerr', 'out@0:clear', 'out@0:data1:plain', 'out@0:stream0:append', 'out@0:stream0:first',
    'att@1:add:b1', 'att@1:add:b2', 'att@1:replace:2', 'att@1:remove',
    'cellmeta@2:tags+extra', 'cellmeta@2:tags+other', 'cellmeta@2:collapsed-flip',
    'nbmeta:kspec-name', 'nbmeta:kspec-name:b',
    'id@0:renamed', 'id@0:other', 'ec@0:7', 'ec@0:8',
    'cell-insert:C1@3', 'cell-insert:C2@3', 'cell-insert:M1@3', 'cell-insert:M2@3', 'cell-insert:M3@1',
    'cell-delete@0', 'cell-delete@1', 'cell-retype@0:markdown', 'cell-retype@1:code', 'cell-move:0>1',
    'minor:3', 'minor:2',
}


def compact(seed_name):
    seed, d1 = depth1(seed_name)
    return seed, [(l, t, n) for l, t, n in d1 if l in COMPACT_LABELS]


# ---- the shared exploration of the merge family ------------------------------------------------

QUICK_COMPACT = {
    'src@0:repl1:a', 'src@0:repl1:b', 'src@0:del1', 'src@0:append-unterminated', 'src@0:append-unterminated:b',
    'out@0:append:Ostream', 'out@0:append:Oerr', 'out@0:clear', 'out@0:data1:plain',
    'att@1:add:b1', 'att@1:add:b2', 'att@1:remove',
    'cellmeta@2:tags+extra', 'cellmeta@2:tags+other', 'nbmeta:kspec-name', 'nbmeta:kspec-name:b',
    'id@0:renamed', 'id@0:other', 'ec@0:7', 'ec@0:8',
    'cell-insert:C1@3', 'cell-insert:C2@3', 'cell-insert:M1@3', 'cell-insert:M2@3',
    'cell-delete@0', 'cell-retype@0:markdown', 'minor:3', 'minor:2',
}


def effective_table(cfg):
    """The strategy table nbdime itself derives from the CLI namespace (used to group the 282
    combinations into classes that the implementation maps to the same table)."""
    from nbdime.merging.notebooks import notebook_merge_strategies
    st = notebook_merge_strategies(args_for(cfg))
    return (tuple(sorted((k, str(v)) for k, v in st.items())), tuple(sorted(st.transients)), str(st.fall_back))


def config_classes():
    classes = {}
    for cfg in all_configs():
        classes.setdefault(effective_table(cfg), []).append(cfg)
    return classes


def runs_plan(tier):
    focus = [('S45#focus:%s' % f, (KEY_CONFIGS[0], KEY_CONFIGS[4]) if tier == 'quick' else tuple(KEY_CONFIGS)) for f in ('outputs', 'outsim', 'source', 'meta', 'attachments')]
    focus.append(('Sprev#focus:prevmeta', (KEY_CONFIGS[0], KEY_CONFIGS[4], KEY_CONFIGS[2])))
    focus += [('SprevL#focus:prevatt', (KEY_CONFIGS[0], KEY_CONFIGS[4])), ('SprevR#focus:prevatt', (KEY_CONFIGS[0], KEY_CONFIGS[4])), ('Sprev#focus:prevatt', (KEY_CONFIGS[0],)),
              ('S44#focus:upgrade', (KEY_CONFIGS[0], KEY_CONFIGS[4], KEY_CONFIGS[2]))]
    focus += [('S45#focus:cellmix0', (KEY_CONFIGS[0], KEY_CONFIGS[4])), ('S45#focus:cellmix2', (KEY_CONFIGS[0], KEY_CONFIGS[4])),
              ('S45#lineruns3', (KEY_CONFIGS[4], KEY_CONFIGS[2], KEY_CONFIGS[0]))]
    focus += [('Sthr#%d' % n, (KEY_CONFIGS[0], KEY_CONFIGS[4])) for n in (9, 10, 63, 64)]
    if tier == 'quick':
        return focus + [('S45#cellruns3', (KEY_CONFIGS[0], KEY_CONFIGS[4])), ('S45#outruns2', (KEY_CONFIGS[0], KEY_CONFIGS[4], KEY_CONFIGS[5], KEY_CONFIGS[6]))]
    focus += [('S44#focus:%s' % f, (KEY_CONFIGS[0], KEY_CONFIGS[4])) for f in ('outputs', 'source', 'meta', 'attachments')]
    return focus + _runs_thorough()


def _runs_thorough():
    return [('Sthr#%d' % n, (KEY_CONFIGS[0], KEY_CONFIGS[4], KEY_CONFIGS[6])) for n in (11, 65, 999, 1000, 1001)] + [('S45#cellruns3', tuple(KEY_CONFIGS)), ('S44#cellruns3', (KEY_CONFIGS[0], KEY_CONFIGS[4], KEY_CONFIGS[2])), ('Sempty#cellruns3', (KEY_CONFIGS[0], KEY_CONFIGS[4])),
            ('S45#outruns3', (KEY_CONFIGS[0], KEY_CONFIGS[4], KEY_CONFIGS[5], KEY_CONFIGS[6], KEY_CONFIGS[7]))]


def space(tier, parts=('a', 'b', 'runs', 'nonroot')):
    """Deterministic shard list of the merge family.  A shard is
    (part, seed_name, toolset, tuple(cfgs), base_label or None, [l indices])."""
    shards = []
    info = {}
    cls = config_classes()
    reps = sorted((v[0] for v in cls.values()), key=cfg_name)
    info['config_combinations'] = len(all_configs())
    info['distinct_strategy_tables'] = len(cls)
    if 'a' in parts:
        if tier == 'quick':
            for sname in ('S45', 'S44'):
                seed, d1 = depth1(sname)
                idx = [i for i, (l, t, n) in enumerate(d1) if l in QUICK_COMPACT]
                info['a:%s' % sname] = '%d edits x %d configs (one per distinct strategy table)' % (len(idx), len(reps))
                cfgs = tuple(reps) if sname == 'S45' else tuple(KEY_CONFIGS)
                info['a:%s' % sname] = '%d x %d edits x %d configs' % (len(idx), len(idx), len(cfgs))
                for i in idx:
                    shards.append(('a', sname, 'git', cfgs, None, (i,), tuple(idx)))
        else:
            allc = tuple(all_configs())
            for sname in ('S45', 'S44', 'Ssim'):
                seed, d1 = depth1(sname)
                lab = COMPACT_LABELS if sname != 'Ssim' else None
                idx = [i for i, (l, t, n) in enumerate(d1) if (lab is None and i % 9 == 0) or (lab and l in lab)]
                for ts in ('git', 'diff3', 'none'):
                    info['a:%s:%s' % (sname, ts)] = '%d edits x %d configs' % (len(idx), len(allc))
                    for i in idx:
                        shards.append(('a', sname, ts, allc, None, (i,), tuple(idx)))
    if 'b' in parts:
        if tier == 'quick':
            plan = [('S45', (KEY_CONFIGS[0], KEY_CONFIGS[4], KEY_CONFIGS[2])), ('Sjson', (KEY_CONFIGS[0],)),
                    ('Sv2', (KEY_CONFIGS[0], KEY_CONFIGS[4])), ('Sempty', tuple(KEY_CONFIGS))]
        else:
            plan = [(s, tuple(KEY_CONFIGS)) for s in ('S45', 'S44', 'Ssim', 'Sjson', 'Sprev', 'Sv0', 'Sv1', 'Sv2', 'Sv3', 'Sempty')]
        for sname, cfgs in plan:
            seed, d1 = depth1(sname)
            idx = tuple(range(len(d1)))
            info['b:%s' % sname] = '%d x %d edits x %d configs' % (len(d1), len(d1), len(cfgs))
            for i in idx:
                shards.append(('b', sname, 'git', cfgs, None, (i,), idx))
    if 'b' in parts and tier == 'quick':
        # focused slices: output edits x output strategies, attachment/source edits x input strategies (found by the thorough tier first)
        for sname in ('S45', 'S44'):
            seed, d1 = depth1(sname)
            oidx = tuple(i for i, (l, t, n) in enumerate(d1) if t['kind'] in ('outputs', 'rerun', 'execution_count'))
            cfgs = (KEY_CONFIGS[5], KEY_CONFIGS[6], KEY_CONFIGS[7], ('use-base', None, 'inline', True))
            info['b-outputs:%s' % sname] = '%d x %d output edits x %d configs' % (len(oidx), len(oidx), len(cfgs))
            for i in oidx:
                shards.append(('b', sname, 'git', cfgs, None, (i,), oidx))
            iidx = tuple(i for i, (l, t, n) in enumerate(d1) if t['kind'] in ('attachments', 'source', 'cell-retype', 'cell-delete'))
            cfgs = (KEY_CONFIGS[8], KEY_CONFIGS[9], KEY_CONFIGS[11])
            info['b-inputs:%s' % sname] = '%d x %d input edits x %d configs' % (len(iidx), len(iidx), len(cfgs))
            for i in iidx:
                shards.append(('b', sname, 'git', cfgs, None, (i,), iidx))
    if 'b' in parts and tier == 'quick':
        # the renderers of source conflicts: source edits x source edits under the default strategy with diff3 only and with no external helper at all
        seed, d1 = depth1('S45')
        sidx = tuple(i for i, (l, t, n) in enumerate(d1) if t['kind'] == 'source')
        info['b-renderers:S45'] = '%d x %d source edits x {diff3, none}' % (len(sidx), len(sidx))
        for ts in ('diff3', 'none'):
            for i in sidx:
                shards.append(('b', 'S45', ts, (KEY_CONFIGS[0],), None, (i,), sidx))
    if 'runs' in parts:
        # two edits on one side against one edit on the other, over the compact conflicting alphabet (both role assignments)
        for sname in (('S45#compact2',) if tier == 'quick' else ('S45#compact2', 'S44#compact2')):
            seed, d1 = depth1(sname)
            n1 = _split[sname]
            one, two = tuple(range(n1)), tuple(range(n1, len(d1)))
            cfgs = (KEY_CONFIGS[0], KEY_CONFIGS[4]) if tier == 'quick' else tuple(KEY_CONFIGS[:8])
            info['runs:%s' % sname] = '%d two-edit states x %d one-edit states x 2 role assignments x %d configs' % (len(two), len(one), len(cfgs))
            for i in two:
                shards.append(('b', sname, 'git', cfgs, None, (i,), one))
            for i in one:
                shards.append(('b', sname, 'git', cfgs, None, (i,), two))
        for sname, cfgs in runs_plan(tier):
            seed, d1 = depth1(sname)
            idx = tuple(range(len(d1)))
            info['runs:%s' % sname] = '%d x %d insert runs x %d configs' % (len(d1), len(d1), len(cfgs))
            for i in idx:
                shards.append(('b', sname, 'git', cfgs, None, (i,), idx))
    if 'nonroot' in parts and tier == 'thorough':
        seed, d1 = depth1('S45')
        for bl, bt, bnb in d1:
            if bl not in QUICK_COMPACT:
                continue
            shards.append(('nonroot', 'S45', 'git', (KEY_CONFIGS[0], KEY_CONFIGS[4]), bl, None, None))
    return shards, info


_nonroot_cache = {}


def shard_triples(shard):
    """Yield (B, L, R, cfg, toolset, labels) for one shard."""
    part, sname, ts, cfgs, base_label, lidx, ridx = shard
    if part == 'nonroot':
        seed, d1 = depth1(sname)
        base = [n for l, t, n in d1 if l == base_label][0]
        d1b = [(l, t, n) for l, t, n in U.depth1(base) if l in COMPACT_LABELS]
        for ll, lt, ln in d1b:
            for rl, rt, rn in d1b:
                for cfg in cfgs:
                    yield base, ln, rn, cfg, ts, (sname + '+' + base_label, ll, rl)
        return
    seed, d1 = depth1(sname)
    for i in lidx:
        ll, lt, ln = d1[i]
        for j in ridx:
            rl, rt, rn = d1[j]
            for cfg in cfgs:
                yield seed, ln, rn, cfg, ts, (sname, ll, rl)
