"""Independent implementation of "apply merge decisions to base" (C09), on top of ref_patch.

Rule (docs/source/merging.rst + the published action vocabulary):
  * decisions are processed in list order; consecutive decisions with the same path form a group;
  * each decision is resolved to a diff by its action: local/either -> local_diff, remote ->
    remote_diff, base -> nothing, local_then_remote / remote_then_local -> both in that order,
    custom -> custom_diff, clear -> replace the targeted key by an empty value of its type,
    remove -> remove the targeted key/item, clear_all -> remove everything at the path (and drop the
    other decisions of the group), take_max -> replace by the maximum of base/local/remote value;
  * a path that runs into a string addresses one of its lines: the diff is wrapped in a patch of
    that line and the group is the string;
  * the diffs of a group are combined (patches of the same key merged) and applied in one patch.

Works on plain JSON; never imports nbdime.
"""
import copy

from .refpatch import ref_patch


class RefApplyError(Exception):
    pass


def split_string_path(doc, path):
    cur = doc
    for i, key in enumerate(path):
        if isinstance(cur, str):
            return list(path[:i]), list(path[i:])
        try:
            cur = cur[key]
        except (KeyError, IndexError, TypeError):
            raise RefApplyError('decision path %r does not resolve' % (path,))
    return list(path), []


def _cleared(v):
    if isinstance(v, list):
        return []
    if isinstance(v, dict):
        return {}
    if isinstance(v, str):
        return ''
    return None


def _target_key(dec):
    keys = set()
    for d in (dec.get('local_diff') or []) + (dec.get('remote_diff') or []):
        keys.add(d['key'])
    if len(keys) != 1:
        raise RefApplyError('action %r needs exactly one targeted key, got %r' % (dec.get('action'), sorted(map(str, keys))))
    return keys.pop()


def resolve(dec, value, force=None):
    a = force or dec.get('action')
    L = dec.get('local_diff') or []
    R = dec.get('remote_diff') or []
    if a == 'base':
        return []
    if a in ('local', 'either'):
        return list(L)
    if a == 'remote':
        return list(R)
    if a == 'custom':
        return list(dec.get('custom_diff') or [])
    if a == 'local_then_remote':
        return list(L) + list(R)
    if a == 'remote_then_local':
        return list(R) + list(L)
    if a in ('clear', 'remove'):
        key = _target_key(dec)
        if a == 'clear':
            return [{'op': 'replace', 'key': key, 'value': _cleared(value[key])}]
        if isinstance(value, (list, str)):
            return [{'op': 'removerange', 'key': key, 'length': 1}]
        return [{'op': 'remove', 'key': key}]
    if a == 'clear_all':
        if isinstance(value, dict):
            return [{'op': 'remove', 'key': k} for k in value]
        return [{'op': 'removerange', 'key': 0, 'length': len(value)}]
    if a == 'take_max':
        key = _target_key(dec)
        bval = value[key]
        lval = L[0]['value'] if L else bval
        rval = R[0]['value'] if R else bval
        m = max(bval, lval, rval)
        return [] if m == bval else [{'op': 'replace', 'key': key, 'value': m}]
    raise RefApplyError('unknown action %r' % (a,))


def combine(diffs):
    """Merge patch ops on the same key; keep everything else; order by key (stable)."""
    out = []
    patches = {}
    for d in diffs:
        if d['op'] == 'patch':
            k = d['key']
            if k in patches:
                patches[k]['diff'] = combine(patches[k]['diff'] + list(d['diff']))
                continue
            d = {'op': 'patch', 'key': k, 'diff': combine(list(d['diff']))}
            patches[k] = d
        out.append(d)
    keyed = sorted(range(len(out)), key=lambda i: (_sortable(out[i]['key']), i))
    return [out[i] for i in keyed]


def _sortable(k):
    return (0, k) if isinstance(k, int) else (1, k)


def _wrap(line_path, diff):
    for key in reversed(line_path):
        diff = [{'op': 'patch', 'key': key, 'diff': diff}]
    return diff


def ref_apply(base, decisions, force=None):
    """Apply decisions (plain JSON) to base.  force in (None, 'local', 'remote') overrides actions."""
    merged = copy.deepcopy(base)
    i = 0
    n = len(decisions)
    while i < n:
        path, line = split_string_path(merged, decisions[i].get('common_path') or [])
        group = [(decisions[i], line)]
        j = i + 1
        while j < n:
            p2, l2 = split_string_path(merged, decisions[j].get('common_path') or [])
            if p2 != path:
                break
            group.append((decisions[j], l2))
            j += 1
        i = j
        parent, key, value = None, None, merged
        for k in path:
            parent, key, value = value, k, value[k]
        diffs = []
        cleared = False
        for dec, ln in group:
            if cleared:
                continue
            act = force or dec.get('action')
            if act == 'clear_all':
                diffs = []
                cleared = True
            d = resolve(dec, value, force)
            if ln:
                d = _wrap(ln, d)
            diffs = diffs + d
        new = ref_patch(value, combine(diffs))
        if parent is None:
            merged = new
        else:
            parent[key] = new
    return merged
