"""Structural well-formedness of a diff relative to the document it was computed from (C11).

Independent of nbdime.  `check(base, diff)` returns a list of (code, path) problems; empty list
means well-formed.  Codes are stable classifiers used in fingerprints.

Rules (from the property statement):
  lists   : entries ordered by key; at equal key an addrange precedes removerange/patch;
            ranges [key, key+length) and patch keys pairwise disjoint; 0 <= key <= N for
            addrange, key+length <= N for removerange, 0 <= key < N for patch.
  objects : each key targeted at most once; add => key absent; remove/replace/patch => present.
  patch   : only into a list, object or string; its diff is never empty.
  strings : line ops at the top (valuelist = list of strings), character ops under a line patch
            (valuelist = string or list of one-character strings), no patch below a character.
  ops     : only the six documented op names, each with its documented argument.
"""

SEQ_OPS = ('addrange', 'removerange', 'patch')
MAP_OPS = ('add', 'remove', 'replace', 'patch')


def check(base, diff, path=''):
    errs = []
    _check(base, diff, path, errs, mode='doc')
    return errs


def _is_int(x):
    return isinstance(x, int) and not isinstance(x, bool)


def _check(base, diff, path, errs, mode):
    if not isinstance(diff, list):
        errs.append(('diff-not-list', path))
        return
    if isinstance(base, dict):
        _check_map(base, diff, path, errs)
    elif isinstance(base, list):
        _check_seq(base, diff, path, errs, kind='list')
    elif isinstance(base, str):
        if mode == 'chars':
            _check_seq(list(base), diff, path, errs, kind='chars')
        else:
            _check_seq(base.splitlines(True), diff, path, errs, kind='lines')
    else:
        errs.append(('diff-of-atom', path))


def _check_seq(seq, diff, path, errs, kind):
    n = len(seq)
    prev_key = None
    prev_op = None
    covered = set()
    for e in diff:
        if not isinstance(e, dict) or 'op' not in e or 'key' not in e:
            errs.append(('entry-malformed', path))
            continue
        op, key = e['op'], e['key']
        if op not in SEQ_OPS:
            errs.append(('bad-seq-op:%s' % op, path))
            continue
        if not _is_int(key):
            errs.append(('seq-key-not-int', path))
            continue
        if prev_key is not None:
            if key < prev_key:
                errs.append(('unsorted', path))
            elif key == prev_key and op == 'addrange' and prev_op != 'addrange':
                errs.append(('addrange-after-%s-at-same-key' % prev_op, path))
        prev_key, prev_op = key, op
        if op == 'addrange':
            vl = e.get('valuelist')
            if vl is None:
                errs.append(('addrange-without-valuelist', path))
            elif kind == 'chars':
                if not (isinstance(vl, str) or (isinstance(vl, list) and all(isinstance(c, str) and len(c) == 1 for c in vl))):
                    errs.append(('char-valuelist-not-text', path))
            elif kind == 'lines':
                if not (isinstance(vl, list) and all(isinstance(c, str) for c in vl)):
                    errs.append(('line-valuelist-not-list-of-str', path))
            elif not isinstance(vl, list):
                errs.append(('valuelist-not-list', path))
            if not 0 <= key <= n:
                errs.append(('addrange-out-of-bounds', path))
        elif op == 'removerange':
            ln = e.get('length')
            if not _is_int(ln) or ln < 0:
                errs.append(('removerange-bad-length', path))
                continue
            if key < 0 or key + ln > n:
                errs.append(('removerange-out-of-bounds', path))
            for i in range(max(key, 0), min(key + ln, n)):
                if i in covered:
                    errs.append(('overlap', path))
                    break
            covered.update(range(key, key + ln))
        else:  # patch
            if not 0 <= key < n:
                errs.append(('patch-out-of-bounds', path))
                continue
            if key in covered:
                errs.append(('overlap', path))
            covered.add(key)
            sub = e.get('diff')
            sp = '%s/%s' % (path, '*')
            if not isinstance(sub, list):
                errs.append(('patch-without-diff', sp))
                continue
            if not sub:
                errs.append(('empty-patch', sp))
            item = seq[key]
            if kind == 'chars':
                errs.append(('patch-into-character', sp))
            elif kind == 'lines':
                _check(item, sub, sp, errs, mode='chars')
            elif isinstance(item, (dict, list, str)):
                _check(item, sub, sp, errs, mode='doc')
            else:
                errs.append(('patch-into-atom', sp))


def _check_map(obj, diff, path, errs):
    seen = set()
    for e in diff:
        if not isinstance(e, dict) or 'op' not in e or 'key' not in e:
            errs.append(('entry-malformed', path))
            continue
        op, key = e['op'], e['key']
        if op not in MAP_OPS:
            errs.append(('bad-map-op:%s' % op, path))
            continue
        if not isinstance(key, str):
            errs.append(('map-key-not-str', path))
            continue
        if key in seen:
            errs.append(('key-targeted-twice', path))
        seen.add(key)
        sp = '%s/%s' % (path, key)
        if op == 'add':
            if 'value' not in e:
                errs.append(('add-without-value', sp))
            if key in obj:
                errs.append(('add-of-present-key', sp))
        elif op == 'remove':
            if key not in obj:
                errs.append(('remove-of-absent-key', sp))
        elif op == 'replace':
            if 'value' not in e:
                errs.append(('replace-without-value', sp))
            if key not in obj:
                errs.append(('replace-of-absent-key', sp))
        else:
            if key not in obj:
                errs.append(('patch-of-absent-key', sp))
                continue
            sub = e.get('diff')
            if not isinstance(sub, list):
                errs.append(('patch-without-diff', sp))
                continue
            if not sub:
                errs.append(('empty-patch', sp))
            item = obj[key]
            if isinstance(item, (dict, list, str)):
                _check(item, sub, sp, errs, mode='doc')
            else:
                errs.append(('patch-into-atom', sp))


def star(path):
    """Replace integer path components by * (for fingerprints)."""
    return '/'.join('*' if p.lstrip('-').isdigit() else p for p in path.split('/'))
