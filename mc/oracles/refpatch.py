"""Independent implementation of the documented nbdime diff format (docs/source/diffing.rst).

Written from the documentation, not from nbdime/patching.py, and deliberately structured
differently (slot table instead of a take/skip cursor) so that a compensating error in nbdime's
diff and patch cannot hide behind a shared bug.  Works on plain JSON (dict/list/str) and never
imports nbdime.

Documented meaning:
  mappings : remove(key) | add(key, value) [key absent] | replace(key, value) [key present]
             | patch(key, diff)
  sequences: key is an index into the ORIGINAL sequence A of length N
             removerange(key, length) deletes A[key:key+length]
             addrange(key, valuelist) inserts before A[key] (at the end if key == N)
             patch(key, diff) patches A[key]
  strings  : a multi-line string is diffed as the list of its lines (str.splitlines(True));
             a patch on a line holds a character-level sequence diff of that line, whose
             valuelists are strings.
"""


class RefPatchError(Exception):
    pass


def _get(e, k):
    try:
        return e[k]
    except KeyError:
        raise RefPatchError('diff entry lacks %r: %r' % (k, dict(e)))


def ref_patch(obj, diff):
    if isinstance(obj, dict):
        return _patch_mapping(obj, diff)
    if isinstance(obj, list):
        return _patch_sequence(obj, diff, item_patch=ref_patch, wrap=list)
    if isinstance(obj, str):
        lines = obj.splitlines(True)
        out = _patch_sequence(lines, diff, item_patch=_patch_line, wrap=_lines)
        return ''.join(out)
    raise RefPatchError('cannot patch a %s' % type(obj).__name__)


def _lines(valuelist):
    if isinstance(valuelist, str):
        # a line-level addrange must carry a list of lines
        raise RefPatchError('line-level addrange carries a string, expected list of lines')
    for v in valuelist:
        if not isinstance(v, str):
            raise RefPatchError('non-string line in valuelist')
    return list(valuelist)


def _chars(valuelist):
    if isinstance(valuelist, str):
        return list(valuelist)
    for v in valuelist:
        if not isinstance(v, str):
            raise RefPatchError('non-string item in character valuelist')
    return list(valuelist)


def _no_patch(x, d):
    raise RefPatchError('patch op inside a single character')


def _patch_line(line, diff):
    return ''.join(_patch_sequence(list(line), diff, item_patch=_no_patch, wrap=_chars))


def _patch_sequence(seq, diff, item_patch, wrap):
    n = len(seq)
    inserts = [[] for _ in range(n + 1)]   # inserts[i]: items placed before seq[i]
    fate = [None] * n                      # None keep | ('del',) | ('new', value)
    for e in diff:
        op = _get(e, 'op')
        key = _get(e, 'key')
        if isinstance(key, bool) or not isinstance(key, int):
            raise RefPatchError('sequence key must be an integer: %r' % (key,))
        if op == 'addrange':
            if not 0 <= key <= n:
                raise RefPatchError('addrange key %d outside 0..%d' % (key, n))
            inserts[key].extend(wrap(_get(e, 'valuelist')))
        elif op == 'removerange':
            length = _get(e, 'length')
            if length < 0 or key < 0 or key + length > n:
                raise RefPatchError('removerange %d+%d outside 0..%d' % (key, length, n))
            for i in range(key, key + length):
                if fate[i] is not None:
                    raise RefPatchError('index %d targeted twice' % i)
                fate[i] = ('del',)
        elif op == 'patch':
            if not 0 <= key < n:
                raise RefPatchError('patch key %d outside 0..%d' % (key, n - 1))
            if fate[key] is not None:
                raise RefPatchError('index %d targeted twice' % key)
            fate[key] = ('new', item_patch(seq[key], _get(e, 'diff')))
        else:
            raise RefPatchError('op %r is not a sequence op' % (op,))
    out = []
    for i in range(n):
        out.extend(inserts[i])
        f = fate[i]
        if f is None:
            out.append(_copy(seq[i]))
        elif f[0] == 'new':
            out.append(f[1])
    out.extend(inserts[n])
    return out


def _patch_mapping(obj, diff):
    out = {}
    touched = set()
    for e in diff:
        op = _get(e, 'op')
        key = _get(e, 'key')
        if not isinstance(key, str):
            raise RefPatchError('mapping key must be a string: %r' % (key,))
        if key in touched:
            raise RefPatchError('key %r targeted twice' % key)
        touched.add(key)
        if op == 'add':
            if key in obj:
                raise RefPatchError('add of present key %r' % key)
            out[key] = _copy(_get(e, 'value'))
        elif op == 'remove':
            if key not in obj:
                raise RefPatchError('remove of absent key %r' % key)
        elif op == 'replace':
            if key not in obj:
                raise RefPatchError('replace of absent key %r' % key)
            out[key] = _copy(_get(e, 'value'))
        elif op == 'patch':
            if key not in obj:
                raise RefPatchError('patch of absent key %r' % key)
            out[key] = ref_patch(obj[key], _get(e, 'diff'))
        else:
            raise RefPatchError('op %r is not a mapping op' % (op,))
    for k, v in obj.items():
        if k not in touched:
            out[k] = _copy(v)
    return out


def _copy(x):
    if isinstance(x, dict):
        return {k: _copy(v) for k, v in x.items()}
    if isinstance(x, list):
        return [_copy(v) for v in x]
    return x
