"""jsonschema validators: nbformat v4.<minor> (discriminated by cell_type / output_type) and
nbdime's published diff / merge-decision schemas (read from the working tree)."""
import copy
import json
import os
import re

import jsonschema

from ..findings import REPO, normalise_message

_nb_schemas = {}
_validators = {}


def nb_schema(minor):
    import nbformat
    d = os.path.dirname(nbformat.v4.__file__)
    avail = sorted(int(m.group(1)) for m in (re.match(r'nbformat\.v4\.(\d+)\.schema\.json$', f) for f in os.listdir(d)) if m)
    minor = max(min(minor, avail[-1]), avail[0])
    if minor not in _nb_schemas:
        with open(os.path.join(d, 'nbformat.v4.%d.schema.json' % minor)) as f:
            _nb_schemas[minor] = json.load(f)
    return minor, _nb_schemas[minor]


def _validator(minor, defname):
    key = (minor, defname)
    if key not in _validators:
        _, schema = nb_schema(minor)
        if defname is None:
            s = schema
        else:
            s = {'$ref': '#/definitions/' + defname, 'definitions': schema['definitions']}
        _validators[key] = jsonschema.Draft4Validator(s)
    return _validators[key]


CELL_DEFS = {'code': 'code_cell', 'markdown': 'markdown_cell', 'raw': 'raw_cell'}
OUTPUT_DEFS = {'stream': 'stream', 'error': 'error', 'display_data': 'display_data', 'execute_result': 'execute_result'}


def _norm(msg):
    return normalise_message(msg, 120)


def _errors(v, doc, prefix):
    out = []
    for e in v.iter_errors(doc):
        path = prefix + ''.join('/%s' % ('*' if isinstance(p, int) else p) for p in e.absolute_path)
        msg = e.message
        if e.validator in ('additionalProperties', 'required'):
            # keep the property name: it is what identifies the failure
            names = re.findall(r"'([^']*)'", msg)
            msg = '%s:%s' % (e.validator, ','.join(names[-3:]))
        else:
            msg = _norm(msg)
        out.append((path, e.validator, msg))
    return out


def validate_notebook(nb):
    """Discriminated validation of a plain-JSON notebook against the schema of the minor
    version it declares.  Returns a list of (starred path, keyword, message)."""
    errs = []
    if not isinstance(nb, dict):
        return [('/', 'type', 'notebook is not an object')]
    minor = nb.get('nbformat_minor')
    if nb.get('nbformat') != 4 or not isinstance(minor, int) or isinstance(minor, bool):
        return [('/nbformat', 'const', 'not a v4 notebook with integer minor')]
    minor, _ = nb_schema(minor)
    shell = dict(nb)
    cells = shell.get('cells')
    shell['cells'] = []
    errs.extend(_errors(_validator(minor, None), shell, ''))
    if not isinstance(cells, list):
        errs.append(('/cells', 'type', 'cells is not a list'))
        return errs
    for c in cells:
        ct = c.get('cell_type') if isinstance(c, dict) else None
        if ct not in CELL_DEFS:
            errs.append(('/cells/*', 'cell_type', 'unknown cell_type %r' % (ct,)))
            continue
        cc = dict(c)
        outs = cc.get('outputs')
        if ct == 'code' and isinstance(outs, list):
            cc['outputs'] = []
        errs.extend(_errors(_validator(minor, CELL_DEFS[ct]), cc, '/cells/*(%s)' % ct))
        if ct == 'code' and isinstance(outs, list):
            for o in outs:
                ot = o.get('output_type') if isinstance(o, dict) else None
                if ot not in OUTPUT_DEFS:
                    errs.append(('/cells/*(code)/outputs/*', 'output_type', 'unknown output_type %r' % (ot,)))
                    continue
                errs.extend(_errors(_validator(minor, OUTPUT_DEFS[ot]), o, '/cells/*(code)/outputs/*(%s)' % ot))
    return errs


_diff_validator = None
_merge_validator = None


def _load_nbdime_schemas():
    global _diff_validator, _merge_validator
    with open(os.path.join(REPO, 'nbdime', 'diff_format.schema.json')) as f:
        ds = json.load(f)
    with open(os.path.join(REPO, 'nbdime', 'merge_format.schema.json')) as f:
        ms = json.load(f)
    store = {}
    for s in (ds, ms):
        if 'id' in s:
            store[s['id']] = s
        if '$id' in s:
            store[s['$id']] = s
    store['diff_format.schema.json'] = ds
    # refs in the merge schema are relative file names
    base = 'file://' + os.path.join(REPO, 'nbdime') + '/'
    store[base + 'diff_format.schema.json'] = ds
    store[base + 'merge_format.schema.json'] = ms
    import warnings
    with warnings.catch_warnings():
        warnings.simplefilter('ignore')
        _diff_validator = jsonschema.Draft4Validator(ds, resolver=jsonschema.RefResolver(base, ds, store=store))
        _merge_validator = jsonschema.Draft4Validator(ms, resolver=jsonschema.RefResolver(base, ms, store=store))


def validate_diff_schema(d):
    if _diff_validator is None:
        _load_nbdime_schemas()
    return [(''.join('/%s' % ('*' if isinstance(p, int) else p) for p in e.absolute_path), e.validator, _norm(e.message))
            for e in _diff_validator.iter_errors(d)]


def validate_decisions_schema(decs):
    if _merge_validator is None:
        _load_nbdime_schemas()
    out = []
    for e in _merge_validator.iter_errors(decs):
        # report the innermost cause of anyOf/oneOf failures
        leaf = e
        while leaf.context:
            leaf = sorted(leaf.context, key=lambda c: (-len(c.absolute_path), c.message))[0]
        out.append((''.join('/%s' % ('*' if isinstance(p, int) else p) for p in leaf.absolute_path), leaf.validator, _norm(leaf.message)))
    return out
