"""Explorer core: accumulators, deterministic parallel map over shards, time limits, BFS helper.

Everything a property module explores is executed through `run_shards`: the work list is a
deterministic sequence of shards, each shard is run by one forked worker with a fresh
accumulator (`Ctx`), and the accumulators are merged with commutative operations only
(sums, unions, minimum counterexample per fingerprint), so the verdict and every counter are
independent of which worker ran which shard and of VERIF_SEED (the seed only permutes the
shard order and the choice of samples).
"""
import collections
import contextlib
import json
import multiprocessing
import os
import random
import signal
import sys
import time
import traceback


def canon(x):
    """Canonical JSON text: key order is not part of a JSON value, value types are."""
    return json.dumps(x, sort_keys=True, ensure_ascii=False, separators=(',', ':'))


def jclone(x):
    return json.loads(json.dumps(x))


class ExecTimeout(Exception):
    pass


@contextlib.contextmanager
def time_limit(seconds):
    """Limit on the CPU time of this process (ITIMER_PROF: independent of how loaded the machine is), with a wall-clock backstop of ten times the
    limit for executions that wait on a child process."""
    def handler(signum, frame):
        raise ExecTimeout("execution exceeded %ss of CPU time (or %ss of wall-clock time)" % (seconds, seconds * 10))
    old = signal.signal(signal.SIGALRM, handler)
    oldp = signal.signal(signal.SIGPROF, handler)
    signal.setitimer(signal.ITIMER_REAL, seconds * 10)
    signal.setitimer(signal.ITIMER_PROF, seconds)
    try:
        yield
    finally:
        signal.setitimer(signal.ITIMER_PROF, 0)
        signal.setitimer(signal.ITIMER_REAL, 0)
        signal.signal(signal.SIGPROF, oldp)
        signal.signal(signal.SIGALRM, old)


MAX_SAMPLES = 6


class Ctx(object):
    """Accumulator of one shard (and, after merging, of the whole run)."""

    def __init__(self):
        self.counters = collections.Counter()
        self.sets = collections.defaultdict(set)
        self.viol = {}       # fingerprint -> dict(count, what, case, size)
        self.samples = []    # (rank, case)
        self.notes = []

    # -- counters -------------------------------------------------------------------------
    def count(self, name, n=1):
        self.counters[name] += n

    def seen(self, name, value):
        self.sets[name].add(value)

    def sample(self, case, rank=None):
        """Keep a few cases; rank (any sortable) decides which survive merging."""
        if rank is None:
            rank = len(self.samples)
        if len(self.samples) < MAX_SAMPLES * 4:
            self.samples.append((rank, case))

    def violation(self, fingerprint, what, case):
        """Record a violation; per fingerprint the smallest case (by JSON size) is kept."""
        try:
            text = canon(case)
        except (TypeError, ValueError):
            text = repr(case)
            case = {'repr': text}
        size = (len(text), text)
        v = self.viol.get(fingerprint)
        if v is None:
            self.viol[fingerprint] = dict(count=1, what=what, case=case, size=size)
        else:
            v['count'] += 1
            if size < v['size']:
                v.update(what=what, case=case, size=size)

    # -- merging --------------------------------------------------------------------------
    def merge(self, other):
        self.counters.update(other.counters)
        for k, s in other.sets.items():
            self.sets[k] |= s
        for fp, v in other.viol.items():
            mine = self.viol.get(fp)
            if mine is None:
                self.viol[fp] = dict(v)
            else:
                mine['count'] += v['count']
                if v['size'] < mine['size']:
                    mine.update(what=v['what'], case=v['case'], size=v['size'])
        self.samples.extend(other.samples)
        self.notes.extend(other.notes)


class HarnessError(Exception):
    """The machinery (not nbdime) misbehaved: exit 2, never a VIOLATION."""


def nproc():
    try:
        n = len(os.sched_getaffinity(0))
    except AttributeError:
        n = os.cpu_count() or 1
    return max(1, min(16, n, int(os.environ.get('VERIF_PROCS', '16'))))


_WORK = {}


def _run_one(arg):
    idx, shard = arg
    func = _WORK['func']
    ctx = Ctx()
    try:
        func(shard, ctx)
    except Exception:
        return idx, None, traceback.format_exc()
    return idx, ctx, None


def run_shards(func, shards, seed=0, procs=None, label=''):
    """Run func(shard, ctx) for every shard; returns the merged Ctx.

    `func` must be a module-level function or closure available before fork.  Any exception
    escaping `func` is a harness error (property modules catch nbdime's exceptions themselves
    and turn them into violations where the property says so).
    """
    shards = list(shards)
    order = list(range(len(shards)))
    random.Random(seed).shuffle(order)
    total = Ctx()
    procs = procs or nproc()
    _WORK['func'] = func
    t0 = time.time()
    if procs == 1 or len(shards) <= 1:
        results = (_run_one((i, shards[i])) for i in order)
        pool = None
    else:
        mp = multiprocessing.get_context('fork')
        pool = mp.Pool(min(procs, len(shards)))
        results = pool.imap_unordered(_run_one, [(i, shards[i]) for i in order], chunksize=1)
    try:
        done = 0
        for idx, ctx, err in results:
            if err is not None:
                raise HarnessError("shard %r of %s failed:\n%s" % (shards[idx], label, err))
            total.merge(ctx)
            done += 1
    finally:
        if pool is not None:
            pool.terminate()
            pool.join()
    total.counters['_shards'] += len(shards)
    total.notes.append('%s: %d shards in %.1fs on %d procs' % (label, len(shards), time.time() - t0, procs))
    return total


def chunked(seq, n):
    """Split a sequence into at most n contiguous chunks (deterministic)."""
    seq = list(seq)
    if not seq:
        return []
    n = max(1, min(n, len(seq)))
    size = (len(seq) + n - 1) // n
    return [seq[i:i + size] for i in range(0, len(seq), size)]


def bfs(initial, successors, depth, key=canon):
    """Breadth-first closure of `initial` states under `successors(state) -> [(label, state)]`.

    Returns (levels, transitions): levels[d] is the list of (state, path) first reached at
    depth d (path = tuple of labels), transitions counts every generated edge.
    De-duplication is by `key(state)`.
    """
    seen = {}
    levels = [[]]
    for s in initial:
        k = key(s)
        if k not in seen:
            seen[k] = True
            levels[0].append((s, ()))
    transitions = 0
    for d in range(depth):
        nxt = []
        for s, path in levels[d]:
            for label, t in successors(s):
                transitions += 1
                k = key(t)
                if k not in seen:
                    seen[k] = True
                    nxt.append((t, path + (label,)))
        levels.append(nxt)
    return levels, transitions
