"""Notebook universe (DESIGN 4.2): seed notebooks and an alphabet of edit operations.

A state is a notebook as a plain dict in nbformat's in-memory form (multi-line strings joined).
`successors(nb)` returns every applicable edit as (label, tags, new_notebook); tags say which
cell was touched, the *set of enclosing ignore categories* of the change (sources, outputs,
attachments, metadata, id, details) and the kind of edit.  Every insertion kind has at least two
distinct payloads (one similar, one dissimilar to existing content) so that two sides of a merge
can insert equal, similar or unrelated items at the same place.

Every generated state is validated against the nbformat schema of the minor version it declares
(`valid`); ops that would leave the declared format are not offered.
"""
import copy

from .engine import canon, bfs
from .oracles.schemas import validate_notebook

PNG1 = "iVBORw0KGgoAAAANSUhEUgAAAAEAAAABCAYAAAAfFcSJAAAADUlEQVR42mNkYPhfDwAChwGA60e6kgAAAABJRU5ErkJggg=="
PNG2 = "iVBORw0KGgoAAAANSUhEUgAAAAEAAAABCAYAAAAfFcSJAAAADUlEQVR42mP8z8BQDwAEhQGAhKmMIQAAAABJRU5ErkJggg=="
PNG3 = "R0lGODlhAQABAIAAAAUEBAAAACwAAAAAAQABAAACAkQBADsAAAAAAAAAAAAAAAAAAAAAAAAAAAAAAAAAAAAAAAAAAAAAAAAAAAAA"

CATS = ('sources', 'outputs', 'attachments', 'metadata', 'id', 'details')


def cp(x):
    return copy.deepcopy(x)


# --------------------------------------------------------------------------------------------
# building blocks
# --------------------------------------------------------------------------------------------

def code_cell(source, outputs=None, ec=None, metadata=None, id=None):
    c = {'cell_type': 'code', 'source': source, 'metadata': metadata or {}, 'outputs': outputs or [],
         'execution_count': ec}
    if id is not None:
        c['id'] = id
    return c


def md_cell(source, attachments=None, metadata=None, id=None):
    c = {'cell_type': 'markdown', 'source': source, 'metadata': metadata or {}}
    if attachments is not None:
        c['attachments'] = attachments
    if id is not None:
        c['id'] = id
    return c


def raw_cell(source, metadata=None, id=None):
    c = {'cell_type': 'raw', 'source': source, 'metadata': metadata or {}}
    if id is not None:
        c['id'] = id
    return c


def stream(text, name='stdout'):
    return {'output_type': 'stream', 'name': name, 'text': text}


def error(ename='ValueError', evalue='bad value', tb=None):
    return {'output_type': 'error', 'ename': ename, 'evalue': evalue,
            'traceback': tb or ['Traceback (most recent call last)', 'ValueError: bad value']}


def exec_result(data, ec=1, metadata=None):
    return {'output_type': 'execute_result', 'data': data, 'metadata': metadata or {}, 'execution_count': ec}


def display(data, metadata=None):
    return {'output_type': 'display_data', 'data': data, 'metadata': metadata or {}}


def notebook(cells, minor, metadata=None):
    return {'nbformat': 4, 'nbformat_minor': minor, 'metadata': metadata if metadata is not None else {}, 'cells': cells}


SRC0 = "import os\nx = compute(1)\nprint(x)"                 # unterminated last line (typical)
SRC1 = "# Title\nSome text with ![img](attachment:a.png)\n"
SRC2 = "def f(a):\n    return a + 1\n"                       # terminated last line
KSPEC = {'kernelspec': {'name': 'python3', 'display_name': 'Python 3', 'language': 'python'},
         'language_info': {'name': 'python'}}


def seed_main(with_ids):
    ids = (lambda i: i) if with_ids else (lambda i: None)
    cells = [
        code_cell(SRC0, outputs=[
            stream("result is 1\nsecond line\n"),
            exec_result({'text/plain': "<__main__.Obj at 0x7f3a2c1d9e80>", 'image/png': PNG1}, ec=1),
        ], ec=1, id=ids('c0')),
        md_cell(SRC1, attachments={'a.png': {'image/png': PNG1}}, id=ids('c1')),
        code_cell(SRC2, metadata={'tags': ['t'], 'collapsed': False, 'level': 1}, id=ids('c2')),
    ]
    return notebook(cells, 5 if with_ids else 4, cp(KSPEC))


def seed_small(minor):
    cells = [code_cell("a = 1\nb = 2\n", outputs=[stream("3\n")], ec=2)]
    if minor >= 2:
        cells.append(md_cell("just some *markdown* text\n"))
    cells.append(code_cell("import os"))         # a single unterminated line: in-line edits of line 0 followed by new lines
    return notebook(cells, minor, {})


def seed_empty():
    return notebook([], 4, {})


def seed_json():
    cells = [
        code_cell("show(data)\nshow(table)\n", outputs=[
            display({'application/json': {'k': [1, 2], 'n': {'m': 0}}, 'text/plain': "{'k': [1, 2]}"},
                    metadata={'application/json': {'expanded': False}}),
            display({'text/html': "<table>\n<tr><td>1</td></tr>\n</table>\n", 'text/plain': "table 1"}),
            exec_result({'application/json': [1, 2, 3], 'text/plain': "[1, 2, 3]"}, ec=3, metadata={'needs_background': 'light'}),
        ], ec=3, id='j0'),
        code_cell("scalar()\n", outputs=[display({'application/json': 1, 'text/plain': "1"}),
                                          # mime types as some exporters write them: valid keys, matched case-insensitively by readers
                                          display({'text/HTML': "<b>bold</b>\n<i>slanted</i>\n", 'text/plain': "bold slanted"})], ec=5, id='j2'),
        md_cell("![fig](attachment:fig.PNG)\n", attachments={'fig.PNG': {'image/PNG': PNG1}}, id='j3'),
        code_cell("plot()\n", outputs=[display({'image/png': PNG1, 'text/plain': "<Figure size 640x480 with 1 Axes>"}),
                                        display({})],                     # an empty mime bundle is valid
                  ec=4, id='j1', metadata={'scrolled': True, 'note': ''}),
    ]
    return notebook(cells, 5, {'x': [[1], [2]], 'y': [{'k': 1}], 'kernelspec': cp(KSPEC['kernelspec'])})


def seed_sim():
    cells = [
        code_cell("alpha = load_table('one')\nbeta = alpha.filter(col > 3)\nbeta.plot()\n", id='s0', ec=1,
                  outputs=[stream("loaded 10 rows\n")]),
        code_cell("alpha = load_table('two')\nbeta = alpha.filter(col > 3)\nbeta.plot()\n", id='s1', ec=2,
                  outputs=[stream("loaded 12 rows\n")]),
        code_cell("alpha = load_table('one')\nbeta = alpha.filter(col > 3)\nbeta.plot()\n", id='s2'),
        md_cell("x\r\ny\x0cz\u2028w\nplain line after the separators\nlast line\n", id='s3'),
        code_cell("<<<<<<< local\n\\ No newline at end of file\nnaïve café ☃", id='s4'),
        raw_cell("classic mac line\rsecond line\r", id='s5'),       # ends with a bare CR: appending a line break turns it into a CRLF
    ]
    return notebook(cells, 5, {})


def seed_prev():
    """A notebook that carries the artefacts of an earlier conflicted nbdime merge that was committed as it was: recorded
    metadata conflicts, conflict-marker cells and outputs, inline source markers, LOCAL_/REMOTE_ attachments."""
    marker = lambda text: md_cell('<span style="color:red"><b>%s</b></span>' % text, id=None)
    cells = [
        code_cell("<<<<<<< local\nx = 1\n=======\nx = 2\n>>>>>>> remote\nprint(x)", outputs=[
            stream("<<<<<<< local\n", name='stderr'), stream("1\n"), stream("=======\n", name='stderr'), stream("2\n"), stream(">>>>>>> remote\n", name='stderr'),
        ], ec=None, id='p0', metadata={'nbdime-conflicts': {'local_diff': [{'op': 'add', 'key': 'tags', 'value': ['a']}],
                                                            'remote_diff': [{'op': 'add', 'key': 'tags', 'value': ['b']}]}}),
        dict(marker('<<<<<<< local'), id='p1'),
        code_cell("local_cell()\n", id='p2'),
        dict(marker('======='), id='p3'),
        md_cell("remote cell ![i](attachment:a.png)\n", attachments={'a.png': {'image/png': PNG1}, 'LOCAL_a.png': {'image/png': PNG2}, 'REMOTE_a.png': {'image/png': PNG3}}, id='p4'),
        dict(marker('>>>>>>> remote'), id='p5'),
    ]
    md = cp(KSPEC)
    md['nbdime-conflicts'] = {'local_diff': [{'op': 'patch', 'key': 'kernelspec', 'diff': [{'op': 'replace', 'key': 'display_name', 'value': 'L'}]}],
                              'remote_diff': [{'op': 'patch', 'key': 'kernelspec', 'diff': [{'op': 'replace', 'key': 'display_name', 'value': 'R'}]}]}
    return notebook(cells, 5, md)


def seeds():
    s = {
        'S45': seed_main(True),
        'S44': seed_main(False),
        'Sv0': seed_small(0), 'Sv1': seed_small(1), 'Sv2': seed_small(2), 'Sv3': seed_small(3),
        'Sempty': seed_empty(),
        'Sjson': seed_json(),
        'Ssim': seed_sim(),
        'Sprev': seed_prev(),
    }
    # partially cleaned-up leftovers: only one of LOCAL_<name> / REMOTE_<name> remains next to <name>
    for tag, drop in (('SprevL', 'REMOTE_a.png'), ('SprevR', 'LOCAL_a.png')):
        v = cp(s['Sprev'])
        del v['cells'][4]['attachments'][drop]
        s[tag] = v
    for k, v in s.items():
        errs = validate_notebook(v)
        assert not errs, (k, errs)
    return s


# --------------------------------------------------------------------------------------------
# pools for insertions
# --------------------------------------------------------------------------------------------

def cell_pool(with_ids):
    i = (lambda s: s) if with_ids else (lambda s: None)
    return [
        ('C1', code_cell("import os\nx = compute(2)\nprint(x)", id=i('3f2b8e1a-7c4d-4e5f-9a8b-7c6d5e4f3a2b'))),                    # similar to SRC0; id as JupyterLab writes it (UUID)
        ('C2', code_cell("import os\nx = compute(2)\nprint(x)\nprint(os)", outputs=[stream("2\n")], ec=5, id=i('9a8b7c6d-5e4f-4a3b-8c2d-1e0f9a8b7c6d'))),  # similar to C1
        ('C3', code_cell("totally_unrelated = {'k': 0}\n", outputs=[error()], ec=6, id=i('n3'))),
        ('M1', md_cell("## Section\nshared paragraph text ![p](attachment:p.png)\n", attachments={'p.png': {'image/png': PNG1}}, id=i('m'))),           # shortest valid id
        ('M2', md_cell("## Section\nshared paragraph text ![p](attachment:q.png)\n", attachments={'q.png': {'image/png': PNG2}}, id=i('M' * 64))),      # longest valid id
        ('M3', md_cell("Completely different prose.", id=i('n6'))),
        ('R1', raw_cell("raw \\LaTeX{} content\n", id=i('n7'))),
    ]


OUTPUT_POOL = [
    ('Ostream', stream("result is 1\nthird line\n")),      # similar to the seed's stream
    ('Oerr', error()),
    ('Odisp', display({'text/plain': "plain repr", 'image/png': PNG2})),
    ('Ostderr', stream("warning: deprecated\n", name='stderr')),
]


# --------------------------------------------------------------------------------------------
# the edit alphabet
# --------------------------------------------------------------------------------------------

def _lines(s):
    return s.splitlines(True)


EXTRA = [False]      # second values for the remaining edit kinds; switched on while the focused families are generated


def source_edits(src):
    """(label, new_source) for one source string."""
    L = _lines(src)
    out = []
    n = len(L)

    def term(i):
        # keep the terminator of line i
        l = L[i]
        body = l.rstrip('\r\n')
        return l[len(body):]
    for i in range(min(n, 4)):
        out.append(('repl%d:a' % i, ''.join(L[:i] + ['edited line A' + term(i)] + L[i + 1:])))
        out.append(('repl%d:b' % i, ''.join(L[:i] + ['changed line B!' + term(i)] + L[i + 1:])))
        # small in-line change (keeps the line similar)
        body = L[i].rstrip('\r\n')
        out.append(('tweak%d' % i, ''.join(L[:i] + [body + '  # note' + term(i)] + L[i + 1:])))
        if EXTRA[0]:
            out.append(('tweak%d:b' % i, ''.join(L[:i] + [body + '  # remark' + term(i)] + L[i + 1:])))
        out.append(('del%d' % i, ''.join(L[:i] + L[i + 1:])))
        if i in (0, 1):
            # commenting a line out: an in-line change at the very start of the line (the position a line inserted before it also refers to)
            out.append(('comment%d' % i, ''.join(L[:i] + ['# ' + L[i]] + L[i + 1:])))
    for i in range(min(n, 3) + 1):
        if i < n or (n and L[-1].endswith(('\n', '\r'))) or n == 0:
            out.append(('ins%d' % i, ''.join(L[:i] + ['inserted = True\n'] + L[i:])))
            if EXTRA[0]:
                out.append(('ins%d:b' % i, ''.join(L[:i] + ['inserted = False\n'] + L[i:])))
    if src.endswith('\n') or not src:
        out.append(('append-unterminated', src + 'tail'))
        out.append(('append-unterminated:b', src + 'other tail'))
    else:
        out.append(('append-unterminated', src + '\nmore'))
        out.append(('append-unterminated:b', src + '\nextra'))
        out.append(('terminate', src + '\n'))
        out.append(('extend-last', src + ', sys\nfoo = bar(1)\nprint(os, sys, foo)'))     # characters appended to the last line, then more lines
    if src:
        out.append(('clear', ''))
    out.append(('replace-all', "completely = 'different'\ncontent()\n"))
    seen = {src}
    res = []
    for lab, s in out:
        if s not in seen:
            seen.add(s)
            res.append((lab, s))
    return res


def _tags(cell=None, cats=(), kind='edit', **kw):
    t = {'cell': cell, 'cats': tuple(sorted(cats)), 'kind': kind}
    t.update(kw)
    return t


def successors(nb, full=True):
    """All edits applicable to nb: list of (label, tags, new_nb)."""
    out = []
    minor = nb['nbformat_minor']
    with_ids = minor >= 5
    cells = nb['cells']
    n = len(cells)
    used_ids = {c.get('id') for c in cells}

    def emit(label, tags, new):
        out.append((label, tags, new))

    def with_cells(newcells):
        m = dict(nb)
        m['cells'] = newcells
        return m

    def with_cell(i, newcell):
        cs = list(cells)
        cs[i] = newcell
        return with_cells(cs)

    # ---- cell list ----
    pool = cell_pool(with_ids)
    for name, pc in pool:
        if with_ids and pc['id'] in used_ids:
            continue
        if name in ('C1', 'M3') or n <= 1:
            positions = range(n + 1)
        else:
            positions = sorted({0, n})
        for p in positions:
            emit('cell-insert:%s@%d' % (name, p), _tags(cell=None, cats=(), kind='cell-insert', pos=p),
                 with_cells(cells[:p] + [cp(pc)] + cells[p:]))
    for p in range(n):
        emit('cell-delete@%d' % p, _tags(cell=p, kind='cell-delete'), with_cells(cells[:p] + cells[p + 1:]))
    if n >= 2:
        moves = [(i, i + 1) for i in range(n - 1)]
        if n >= 3:
            moves.append((0, n - 1))
            moves.append((n - 1, 0))
        for p, q in moves:
            cs = list(cells)
            c = cs.pop(p)
            cs.insert(q, c)
            emit('cell-move:%d>%d' % (p, q), _tags(cell=p, kind='cell-move'), with_cells(cs))
    for p in range(n):
        dup = cp(cells[p])
        if with_ids:
            dup['id'] = 'dup-' + cells[p]['id']
            if dup['id'] in used_ids:
                continue
        emit('cell-duplicate@%d' % p, _tags(cell=None, kind='cell-insert', pos=p + 1), with_cells(cells[:p + 1] + [dup] + cells[p + 1:]))
    for p in range(n):
        c = cells[p]
        for t in ('code', 'markdown', 'raw'):
            if t == c['cell_type']:
                continue
            nc = {'cell_type': t, 'source': c['source'], 'metadata': cp(c['metadata'])}
            if 'id' in c:
                nc['id'] = c['id']
            if t == 'code':
                nc['outputs'] = []
                nc['execution_count'] = None
            emit('cell-retype@%d:%s' % (p, t), _tags(cell=p, kind='cell-retype'), with_cell(p, nc))

    # ---- per cell ----
    for p in range(n):
        c = cells[p]
        for lab, s in source_edits(c['source']):
            nc = dict(c)
            nc['source'] = s
            emit('src@%d:%s' % (p, lab), _tags(cell=p, cats=('sources',), kind='source'), with_cell(p, nc))
        # metadata
        md = c['metadata']
        for lab, nm in metadata_edits(md):
            nc = dict(c)
            nc['metadata'] = nm
            emit('cellmeta@%d:%s' % (p, lab), _tags(cell=p, cats=('metadata',), kind='metadata'), with_cell(p, nc))
        if with_ids:
            for newid in ('renamed-' + c['id'], 'other-' + c['id']):
                if newid in used_ids or c['id'].startswith(('renamed-', 'other-')):
                    continue
                nc = dict(c)
                nc['id'] = newid
                emit('id@%d:%s' % (p, newid.split('-')[0]), _tags(cell=p, cats=('id',), kind='id'), with_cell(p, nc))
        if c['cell_type'] == 'code':
            for v in (7, 8, None):
                if v != c['execution_count']:
                    nc = dict(c)
                    nc['execution_count'] = v
                    emit('ec@%d:%s' % (p, v), _tags(cell=p, cats=('details',), kind='execution_count'), with_cell(p, nc))
            outs = c['outputs']
            for lab, cats, no in outputs_edits(outs):
                nc = dict(c)
                nc['outputs'] = no
                emit('out@%d:%s' % (p, lab), _tags(cell=p, cats=cats, kind='outputs'), with_cell(p, nc))
            # re-run: new count and changed outputs together
            if outs:
                nc = dict(c)
                nc['execution_count'] = 9
                no = cp(outs)
                for o in no:
                    if o['output_type'] == 'execute_result':
                        o['execution_count'] = 9
                    if o['output_type'] == 'stream':
                        o['text'] = o['text'] + "rerun\n"
                nc['outputs'] = no
                emit('rerun@%d' % p, _tags(cell=p, cats=(), kind='rerun', multi=(('details',), ('outputs',))), with_cell(p, nc))
        if c['cell_type'] in ('markdown', 'raw'):
            att = c.get('attachments')
            for lab, na in attachment_edits(att):
                nc = dict(c)
                if na is None:
                    nc.pop('attachments', None)
                else:
                    nc['attachments'] = na
                emit('att@%d:%s' % (p, lab), _tags(cell=p, cats=('attachments',), kind='attachments'), with_cell(p, nc))

    # ---- notebook level ----
    for lab, nm in metadata_edits(nb['metadata'], toplevel=True):
        m = dict(nb)
        m['metadata'] = nm
        emit('nbmeta:%s' % lab, _tags(cats=('metadata',), kind='metadata'), m)
    if not with_ids and n >= 1:
        # what nbformat's upgrade does when a pre-4.5 notebook is opened and saved by a current Jupyter: minor 5, every cell gets an id
        up = dict(nb)
        up['nbformat_minor'] = 5
        up['cells'] = [dict(c, id='u%d' % i) for i, c in enumerate(cells)]
        emit('upgrade45', _tags(kind='minor'), up)
    if not with_ids:
        for m2 in range(0, 5):
            if m2 != minor and abs(m2 - minor) <= 2:
                m = dict(nb)
                m['nbformat_minor'] = m2
                emit('minor:%d' % m2, _tags(kind='minor'), m)

    res = []
    for label, tags, new in out:
        new = cp(new)
        res.append((label, tags, new))
    return res


def metadata_edits(md, toplevel=False):
    out = []
    if 'tags' in md:
        m = cp(md); m['tags'] = md['tags'] + ['extra']; out.append(('tags+extra', m))
        m = cp(md); m['tags'] = md['tags'] + ['other']; out.append(('tags+other', m))
        m = cp(md); del m['tags']; out.append(('tags-unset', m))
    else:
        m = cp(md); m['tags'] = ['new']; out.append(('tags=new', m))
        m = cp(md); m['tags'] = ['alt']; out.append(('tags=alt', m))
    if 'collapsed' in md:
        m = cp(md); m['collapsed'] = not md['collapsed']; out.append(('collapsed-flip', m))
    if 'scrolled' in md:
        # a transient flag with three distinct values (base, 'auto', the other boolean): both sides can change it differently
        m = cp(md); m['scrolled'] = 'auto'; out.append(('scrolled-auto', m))
        m = cp(md); m['scrolled'] = not md['scrolled'] if isinstance(md['scrolled'], bool) else False; out.append(('scrolled-flip', m))
    if 'note' in md:
        m = cp(md); del m['note']; out.append(('note-unset', m))
        m = cp(md); m['note'] = 'some text'; out.append(('note=text', m))
    else:
        m = cp(md); m['note'] = ''; out.append(('note=empty', m))        # an empty string as a value
    if 'nbdime-conflicts' not in md and EXTRA[0]:
        # what one branch looks like after an earlier conflicted merge was committed as it was (the other branch never had the record)
        m = cp(md); m['nbdime-conflicts'] = {'local_diff': [{'op': 'add', 'key': 'old', 'value': 1}], 'remote_diff': [{'op': 'add', 'key': 'old', 'value': 2}]}
        out.append(('conflicts-added', m))
    if 'nbdime-conflicts' in md:
        m = cp(md); del m['nbdime-conflicts']; out.append(('conflicts-unset', m))
        m = cp(md); m['nbdime-conflicts'] = {'local_diff': [], 'remote_diff': []}; out.append(('conflicts-emptied', m))
    if 'level' in md:
        for lab, v in (('level-float', 1.0), ('level-true', True), ('level-2', 2)):
            if canon(md['level']) != canon(v):
                m = cp(md); m['level'] = v; out.append((lab, m))
    if toplevel:
        if 'kernelspec' in md:
            m = cp(md); m['kernelspec']['display_name'] = 'Py (env)'; out.append(('kspec-name', m))
            m = cp(md); m['kernelspec']['display_name'] = 'Other kernel'; out.append(('kspec-name:b', m))
            if EXTRA[0]:
                # other keys of the same container: several decisions whose diffs patch the same key of /metadata
                m = cp(md); m['kernelspec']['language'] = 'py'; out.append(('kspec-lang', m))
                m = cp(md); m['kernelspec']['name'] = 'other'; out.append(('kspec-id', m))
        if 'language_info' in md:
            m = cp(md); m['language_info']['version'] = '3.12'; out.append(('lang-version', m))
            m = cp(md); del m['language_info']; out.append(('lang-unset', m))
        if 'x' in md:
            m = cp(md); m['x'] = [[1], [2], [3]]; out.append(('x-append', m))
            m = cp(md); m['x'] = [{'k': 1}]; out.append(('x-objects', m))
        else:
            m = cp(md); m['x'] = [[1]]; out.append(('x=lists', m))
            m = cp(md); m['x'] = [{'k': 1}]; out.append(('x=objects', m))
        if 'y' in md:
            m = cp(md); m['y'] = [{'k': 2}]; out.append(('y-edit', m))
    else:
        m = cp(md); m['custom'] = {'a': 1};
        if md.get('custom') != {'a': 1}:
            out.append(('custom=a1', m))
        m = cp(md); m['custom'] = {'a': 2}
        if md.get('custom') != {'a': 2}:
            out.append(('custom=a2', m))
    return out


def attachment_edits(att):
    out = []
    if not att:
        out.append(('add:b1', {'b.png': {'image/png': PNG2}}))
        out.append(('add:b2', {'b.png': {'image/png': PNG3}}))
        return out
    names = sorted(att)
    a = cp(att); a['b.png'] = {'image/png': PNG2}; out.append(('add:b1', a))
    a = cp(att); a['b.png'] = {'image/png': PNG3}; out.append(('add:b2', a))
    k = names[0]
    a = cp(att); del a[k]
    out.append(('remove', a if a else None))
    a = cp(att); a[k] = {'image/png': PNG2}; out.append(('replace:2', a))
    a = cp(att); a[k] = {'image/png': PNG3}; out.append(('replace:3', a))
    a = cp(att); a['renamed.png'] = a.pop(k); out.append(('rename', a))
    if EXTRA[0] and not k.startswith(('LOCAL_', 'REMOTE_')) and 'LOCAL_' + k not in att:
        # a leftover of an earlier conflicted merge that only this branch carries
        a = cp(att); a['LOCAL_' + k] = {'image/png': PNG3}; out.append(('add-leftover', a))
    mk = sorted(att[k])[0]
    if isinstance(att[k][mk], str):
        # the payload changes under the mime key as it is stored (which need not be lower case)
        a = cp(att); a[k] = dict(a[k]); a[k][mk] = PNG2 if att[k][mk] != PNG2 else PNG3; out.append(('payload:2', a))
    a = cp(att); a[k] = dict(a[k]); a[k]['text/plain'] = 'alt text'; out.append(('add-mime', a))
    if 'application/json' in att[k]:
        a = cp(att); a[k] = dict(a[k]); a[k]['application/json'] = 2 if att[k]['application/json'] != 2 else 3; out.append(('json-scalar', a))
    else:
        a = cp(att); a[k] = dict(a[k]); a[k]['application/json'] = 1; out.append(('json-add-scalar', a))
    # the same edits for every other attachment name (LOCAL_/REMOTE_ leftovers of an earlier merge live next to the original)
    for other in names[1:3]:
        a = cp(att); del a[other]; out.append(('remove:%s' % other, a))
        a = cp(att); a[other] = {'image/png': PNG2 if att[other].get('image/png') != PNG2 else PNG1}; out.append(('replace:%s:2' % other, a))
        a = cp(att); a[other] = {'image/png': PNG3 if att[other].get('image/png') != PNG3 else PNG1}; out.append(('replace:%s:3' % other, a))
    res = []
    for lab, a in out:
        if a != att:
            res.append((lab, a))
    return res


def outputs_edits(outs):
    """(label, cats, new_outputs)"""
    O = ('outputs',)
    out = []
    for name, o in OUTPUT_POOL:
        if name in ('Ostream', 'Oerr', 'Odisp'):
            out.append(('append:%s' % name, O, outs + [cp(o)]))
    out.append(('prepend:Ostderr', O, [cp(OUTPUT_POOL[3][1])] + outs))
    if outs:
        out.append(('clear', O, []))
    for q, o in enumerate(outs[:3]):
        out.append(('delete%d' % q, O, outs[:q] + outs[q + 1:]))
        ot = o['output_type']
        if ot == 'stream':
            no = cp(o); no['text'] = o['text'] + "one more line\n"; out.append(('stream%d:append' % q, O, outs[:q] + [no] + outs[q + 1:]))
            no = cp(o); no['text'] = "different first\n" + ''.join(o['text'].splitlines(True)[1:]); out.append(('stream%d:first' % q, O, outs[:q] + [no] + outs[q + 1:]))
            fl = o['text'].splitlines(True)[0]
            for tag, mark in (('tweak', '!'), ('tweak:b', '?')):          # a small change inside the first line: the output stays similar
                no = cp(o); no['text'] = fl.rstrip('\n') + mark + ('\n' if fl.endswith('\n') else '') + ''.join(o['text'].splitlines(True)[1:])
                out.append(('stream%d:%s' % (q, tag), O, outs[:q] + [no] + outs[q + 1:]))
            tl = o['text'].splitlines(True)
            if len(tl) >= 2:
                no = cp(o); no['text'] = ''.join(tl[:1] + ['> ' + tl[1]] + tl[2:]); out.append(('stream%d:quote1' % q, O, outs[:q] + [no] + outs[q + 1:]))
                no = cp(o); no['text'] = ''.join(tl[:1] + ['inserted line\n'] + tl[1:]); out.append(('stream%d:ins1' % q, O, outs[:q] + [no] + outs[q + 1:]))
            no = cp(o); no['text'] = "another first\n" + ''.join(o['text'].splitlines(True)[1:]); out.append(('stream%d:first:b' % q, O, outs[:q] + [no] + outs[q + 1:]))
            no = cp(o); no['text'] = o['text'] + "yet another line\n"; out.append(('stream%d:append:b' % q, O, outs[:q] + [no] + outs[q + 1:]))
        if ot in ('execute_result', 'display_data'):
            data = o['data']
            if 'text/plain' in data and '0x' in data['text/plain']:
                no = cp(o); no['data']['text/plain'] = data['text/plain'].replace('0x7f3a2c1d9e80', '0x7f0000000000')
                out.append(('data%d:pointer' % q, O, outs[:q] + [no] + outs[q + 1:]))
            if 'text/plain' in data:
                no = cp(o); no['data']['text/plain'] = 'new plain text'
                out.append(('data%d:plain' % q, O, outs[:q] + [no] + outs[q + 1:]))
                for tag, mark in (('plain-tweak', ' v2'), ('plain-tweak:b', ' v3')):
                    no = cp(o); no['data']['text/plain'] = data['text/plain'] + mark
                    out.append(('data%d:%s' % (q, tag), O, outs[:q] + [no] + outs[q + 1:]))
                no = cp(o); no['data']['text/plain'] = 'other plain text'
                out.append(('data%d:plain:b' % q, O, outs[:q] + [no] + outs[q + 1:]))
            if 'image/png' in data:
                no = cp(o); no['data']['image/png'] = PNG2 if data['image/png'] != PNG2 else PNG3
                out.append(('data%d:png' % q, O, outs[:q] + [no] + outs[q + 1:]))
                no = cp(o); no['data']['image/png'] = PNG3 if data['image/png'] != PNG3 else PNG1
                out.append(('data%d:png:b' % q, O, outs[:q] + [no] + outs[q + 1:]))
                no = cp(o); del no['data']['image/png']
                out.append(('data%d:png-remove' % q, O, outs[:q] + [no] + outs[q + 1:]))
            if 'application/json' in data:
                j = data['application/json']
                no = cp(o)
                if isinstance(j, dict):
                    no['data']['application/json'] = dict(j, added=True)
                elif isinstance(j, list):
                    no['data']['application/json'] = j + [4]
                else:
                    no['data']['application/json'] = 2
                out.append(('data%d:json-edit' % q, O, outs[:q] + [no] + outs[q + 1:]))
                no = cp(o); no['data']['application/json'] = {'replaced': [0]} if not isinstance(j, dict) else [0]
                out.append(('data%d:json-retype' % q, O, outs[:q] + [no] + outs[q + 1:]))
            if 'text/html' in data:
                no = cp(o); no['data']['text/html'] = data['text/html'].replace('<td>1</td>', '<td>2</td>')
                out.append(('data%d:html' % q, O, outs[:q] + [no] + outs[q + 1:]))
            for mk in sorted(data):
                if mk != mk.lower() and isinstance(data[mk], str):
                    # payload of an entry whose mime key is not all lower case: a small change (stays similar) under the key as it is stored
                    no = cp(o); no['data'][mk] = data[mk].replace('bold', 'strong') if 'bold' in data[mk] else data[mk] + ' '
                    out.append(('data%d:mixedcase' % q, O, outs[:q] + [no] + outs[q + 1:]))
            if 'application/json' not in data:
                no = cp(o); no['data']['application/json'] = {'new': 1}
                out.append(('data%d:json-add' % q, O, outs[:q] + [no] + outs[q + 1:]))
            # output metadata: inside both 'outputs' and 'metadata'
            no = cp(o)
            if no['metadata']:
                no['metadata'] = {}
                lab = 'ometa%d:unset' % q
            else:
                no['metadata'] = {'isolated': True}
                lab = 'ometa%d:set' % q
            out.append((lab, ('metadata', 'outputs'), outs[:q] + [no] + outs[q + 1:]))
            no = cp(o); no['metadata'] = dict(o['metadata'], width=100)
            out.append(('ometa%d:width' % q, ('metadata', 'outputs'), outs[:q] + [no] + outs[q + 1:]))
            if EXTRA[0]:
                no = cp(o); no['metadata'] = dict(o['metadata'], width=200)
                out.append(('ometa%d:width:b' % q, ('metadata', 'outputs'), outs[:q] + [no] + outs[q + 1:]))
        if ot == 'execute_result':
            no = cp(o); no['execution_count'] = (o['execution_count'] or 0) + 10
            out.append(('oec%d' % q, ('details', 'outputs'), outs[:q] + [no] + outs[q + 1:]))
            no = cp(o); no['execution_count'] = (o['execution_count'] or 0) + 20       # a second value: both sides re-running gives two different counts
            out.append(('oec%d:b' % q, ('details', 'outputs'), outs[:q] + [no] + outs[q + 1:]))
        if ot == 'error':
            no = cp(o); no['evalue'] = 'another value'
            out.append(('err%d:evalue' % q, O, outs[:q] + [no] + outs[q + 1:]))
            if EXTRA[0]:
                no = cp(o); no['evalue'] = 'a third value'
                out.append(('err%d:evalue:b' % q, O, outs[:q] + [no] + outs[q + 1:]))
    return out


# --------------------------------------------------------------------------------------------
# runs: several items inserted at one position by one side (concurrent-insert splitting needs runs
# of unequal length on the two sides, with dissimilar items followed by similar ones)
# --------------------------------------------------------------------------------------------

RUN_CELLS = ('C1', 'C2', 'C3', 'M1', 'M2')
RUN_OUTPUTS = ('Ostream', 'Ostream2', 'Oerr', 'Odisp', 'Ostderr')
OUTPUT_POOL2 = dict(OUTPUT_POOL)
OUTPUT_POOL2['Ostream2'] = stream("result is 1\nthird line, slightly changed\n")


def cell_runs(seed, pos, maxlen, names=RUN_CELLS):
    import itertools
    pool = dict(cell_pool(seed['nbformat_minor'] >= 5))
    out = []
    for n in range(1, maxlen + 1):
        for perm in itertools.permutations(names, n):
            nb = dict(seed)
            nb['cells'] = seed['cells'][:pos] + [cp(pool[x]) for x in perm] + seed['cells'][pos:]
            out.append(('cellrun@%d:%s' % (pos, '+'.join(perm)), _tags(kind='cell-insert', pos=pos), cp(nb)))
    return out


RUN_LINES = ("\n", "L = 1\n", "R = 2\n", "shared = 0\n")


def line_runs(seed, cell, pos, maxlen, lines=RUN_LINES):
    """Runs of lines (repetition allowed) inserted before line `pos` of one cell's source."""
    import itertools
    out = []
    L = seed['cells'][cell]['source'].splitlines(True)
    for n in range(1, maxlen + 1):
        for run in itertools.product(range(len(lines)), repeat=n):
            nb = cp(seed)
            nb['cells'][cell]['source'] = ''.join(L[:pos] + [lines[i] for i in run] + L[pos:])
            out.append(('linerun@%d.%d:%s' % (cell, pos, ''.join(str(i) for i in run)), _tags(cell=cell, cats=('sources',), kind='source'), nb))
    return out


def output_runs(seed, cell, maxlen, names=RUN_OUTPUTS):
    import itertools
    out = []
    for n in range(1, maxlen + 1):
        for perm in itertools.permutations(names, n):
            nb = cp(seed)
            nb['cells'][cell]['outputs'] = nb['cells'][cell]['outputs'] + [cp(OUTPUT_POOL2[x]) for x in perm]
            out.append(('outrun@%d:%s' % (cell, '+'.join(perm)), _tags(cell=cell, cats=('outputs',), kind='outputs'), nb))
    return out


# --------------------------------------------------------------------------------------------
# focused depth-2 families: two edits by the same side inside one field of one cell (index arithmetic
# across several chunks / several decisions on one path only shows with more than one edit per side)
# --------------------------------------------------------------------------------------------

FOCUS = {
    'outputs': ('out@0:stream0:append', 'out@0:stream0:first', 'out@0:data1:plain', 'out@0:data1:png', 'out@0:ometa1:set', 'out@0:ometa1:width',
                'out@0:oec1', 'out@0:oec1:b', 'out@0:append:Oerr', 'out@0:delete0', 'ec@0:7'),
    # edits that keep the output similar to its base version (so that it is patched, not replaced), each with two values
    'outsim': ('out@0:stream0:tweak', 'out@0:stream0:tweak:b', 'out@0:stream0:quote1', 'out@0:stream0:ins1', 'out@0:stream0:append', 'out@0:stream0:append:b', 'out@0:data1:plain-tweak', 'out@0:data1:plain-tweak:b',
               'out@0:data1:png', 'out@0:data1:png:b', 'out@0:ometa1:width', 'out@0:ometa1:width:b', 'out@0:oec1', 'out@0:oec1:b'),
    'source': ('src@0:repl0:a', 'src@0:repl0:b', 'src@0:repl2:a', 'src@0:repl2:b', 'src@0:del1', 'src@0:ins1', 'src@0:ins1:b', 'src@0:tweak1', 'src@0:tweak1:b', 'src@0:comment1',
               'src@0:append-unterminated', 'src@0:terminate'),
    'meta': ('cellmeta@2:tags+extra', 'cellmeta@2:tags+other', 'cellmeta@2:collapsed-flip', 'cellmeta@2:custom=a1', 'cellmeta@2:custom=a2', 'cellmeta@2:level-2',
             'nbmeta:kspec-name', 'nbmeta:kspec-name:b', 'nbmeta:kspec-lang', 'nbmeta:kspec-id', 'nbmeta:tags=new', 'nbmeta:x=lists', 'nbmeta:conflicts-added',
             'cellmeta@2:conflicts-added'),
    'cellmix0': ('ec@0:7', 'out@0:oec1', 'src@0:tweak1', 'src@0:repl2:a', 'cell-delete@0', 'rerun@0', 'cellmeta@0:custom=a1', 'cell-retype@0:raw', 'id@0:renamed',
                 'out@0:data1:plain-tweak', 'out@0:stream0:tweak', 'out@0:stream0:first'),
    'cellmix2': ('cellmeta@2:collapsed-flip', 'src@2:tweak0', 'src@2:repl0:a', 'ec@2:7', 'cell-delete@2', 'cellmeta@2:tags+extra', 'out@2:append:Ostream',
                 'cell-move:1>2', 'cell-insert:C1@2'),
    'prevatt': ('att@4:replace:a.png:2', 'att@4:replace:a.png:3', 'att@4:remove:a.png', 'att@4:replace:2', 'att@4:replace:3', 'att@4:remove', 'att@4:add:b1', 'att@4:add:b2',
                'src@4:repl0:a'),
    'upgrade': ('upgrade45', 'cell-insert:C3@3', 'cell-insert:M3@3', 'cell-insert:C1@3', 'cell-insert:C2@3', 'minor:3', 'src@0:tweak1', 'cell-delete@1', 'cell-retype@2:raw'),
    'prevmeta': ('nbmeta:conflicts-unset', 'nbmeta:conflicts-emptied', 'nbmeta:kspec-name', 'nbmeta:kspec-name:b', 'nbmeta:tags=new', 'nbmeta:tags=alt',
                 'cellmeta@0:conflicts-unset', 'cellmeta@0:conflicts-emptied', 'cellmeta@0:tags=new', 'cellmeta@0:tags=alt', 'cellmeta@0:custom=a1', 'cellmeta@0:custom=a2'),
    'attachments': ('att@1:add:b1', 'att@1:add:b2', 'att@1:replace:2', 'att@1:replace:3', 'att@1:rename', 'att@1:add-mime', 'src@1:repl1:a', 'src@1:repl1:b', 'att@1:add-leftover'),
}


def two_edits(seed, labels):
    """(one_edit_states, two_edit_states) over a label set: every state reached by one, resp. exactly two different edits of the set."""
    allowed = set(labels)
    seen = {canon(seed)}
    one, two = [], []
    first = [(l, t, n) for l, t, n in successors(seed) if l in allowed and valid(n)]
    for l, t, n in first:
        k = canon(n)
        if k not in seen:
            seen.add(k)
            one.append((l, t, n))
    for l1, t1, n1 in first:
        for l2, t2, n2 in successors(n1):
            if l2 in allowed and l2 != l1 and valid(n2):
                k = canon(n2)
                if k not in seen:
                    seen.add(k)
                    g1 = t1.get('multi') or (t1['cats'],)
                    g2 = t2.get('multi') or (t2['cats'],)
                    two.append((l1 + '+' + l2, _tags(cell=t1.get('cell'), cats=(), kind='two-edits', multi=tuple(g1) + tuple(g2)), n2))
    return one, two


def focus2(seed, field):
    """All states reached by one or two edits drawn from FOCUS[field] (labels are matched again after the first edit)."""
    allowed = set(FOCUS[field])
    seen = {canon(seed)}
    out = []
    EXTRA[0] = True
    try:
        return _focus2(seed, allowed, seen, out)
    finally:
        EXTRA[0] = False


def _focus2(seed, allowed, seen, out):
    first = [(l, t, n) for l, t, n in successors(seed) if l in allowed and valid(n)]
    for l, t, n in first:
        k = canon(n)
        if k not in seen:
            seen.add(k)
            out.append((l, t, n))
    for l1, t1, n1 in first:
        for l2, t2, n2 in successors(n1):
            if l2 in allowed and l2 != l1 and valid(n2):
                k = canon(n2)
                if k not in seen:
                    seen.add(k)
                    g1 = t1.get('multi') or (t1['cats'],)
                    g2 = t2.get('multi') or (t2['cats'],)
                    out.append((l1 + '+' + l2, _tags(cell=t1.get('cell'), cats=(), kind='focus2', multi=tuple(g1) + tuple(g2)), n2))
    return out


# --------------------------------------------------------------------------------------------
# exploration helpers
# --------------------------------------------------------------------------------------------

def valid(nb):
    return not validate_notebook(nb)


def succ_valid(nb):
    res = []
    for label, tags, new in successors(nb):
        if valid(new):
            res.append((label, tags, new))
    return res


def explore(seed, depth):
    """BFS(seed, depth): returns (levels, transitions) with levels[d] = [(nb, path)] where path is
    a tuple of (label, tags)."""
    def succ(nb):
        return [((label, tags), new) for label, tags, new in succ_valid(nb)]
    return bfs([seed], succ, depth)


def depth1(seed):
    """[(label, tags, nb)] distinct depth-1 states of seed (de-duplicated, seed itself excluded)."""
    seen = {canon(seed)}
    out = []
    for label, tags, new in succ_valid(seed):
        k = canon(new)
        if k not in seen:
            seen.add(k)
            out.append((label, tags, new))
    return out


def to_node(nb):
    """In-memory form nbdime expects (NotebookNode with attribute access), always a fresh copy."""
    import nbformat
    return nbformat.from_dict(copy.deepcopy(nb))


def plain(x):
    """Back to plain dict/list JSON."""
    if isinstance(x, dict):
        return {k: plain(v) for k, v in x.items()}
    if isinstance(x, (list, tuple)):
        return [plain(v) for v in x]
    return x


# --------------------------------------------------------------------------------------------
# threshold family: payload sizes around every size cut-off visible in the differ (nbdime/diffing/notebooks.py:
# shortlen 10 in compare_text_approximate, min_len 64 in _is_base64, STREAM_MAX_COMPARE_LENGTH 1000,
# TEXT_MIMEDATA_MAX_COMPARE_LENGTH 10000).  One seed per size n in {T-1, T, T+1}; every edit below is applied to it.
# --------------------------------------------------------------------------------------------

THRESHOLDS = (10, 64, 1000, 10000)
_B64 = 'ABCDEFGHIJKLMNOPQRSTUVWXYZabcdefghijklmnopqrstuvwxyz0123456789+/'


def _thr_text(n, v=0):
    if v >= 5:      # a wholesale replacement: dissimilar already by character counts (difflib's ratio() is quadratic on similar texts)
        return ''.join('ENTRY_%04X|QQQQ|ZZZZ|WWWW;\n' % (i * 3 + v) for i in range(n // 20 + 2))[:n]
    s = ''.join('row %04d: value=%d status=ok\n' % (i, (i * 7 + v) % 1000) for i in range(n // 20 + 2))
    return s[:n]


def _thr_html(n, v=0):
    if v >= 5:
        return ('<DIV>\n' + ''.join('<P>PARAGRAPH_%04X_QQQQ_ZZZZ</P>\n' % (i * 3 + v) for i in range(n // 20 + 2)))[:n]
    s = '<table>\n' + ''.join('<tr><td>%d</td><td>%d</td></tr>\n' % (i, (i * 13 + v) % 997) for i in range(n // 20 + 2))
    return s[:n]


def _thr_b64(n, v=0):
    # valid base64 has a length that is a multiple of 4: 63 -> 60, 65 -> 68, 9999 -> 9996, 10001 -> 10004
    n4 = n - n % 4 + (4 if n % 4 == 1 and n > 64 else 0)
    return ''.join(_B64[(i * 7 + i // 64 + v) % 64] for i in range(n4))


def threshold_sizes(tier='quick'):
    return [t + d for t in THRESHOLDS for d in (-1, 0, 1)]


def seed_threshold(n):
    cells = [
        code_cell("show()\n", outputs=[
            stream(_thr_text(n)),
            exec_result({'text/plain': _thr_text(n, 1), 'text/html': _thr_html(n)}, ec=1),
            display({'image/png': _thr_b64(n), 'text/plain': '<Figure size 640x480 with 1 Axes>'}),
        ], ec=1, id='t0'),
        md_cell("![big](attachment:big.png)\n", attachments={'big.png': {'image/png': _thr_b64(n, 3)}}, id='t1'),
    ]
    return notebook(cells, 5, {})


def _chg(s, pos, alphabet=None):
    """s with the character at pos replaced by another one (never a line break)."""
    c = s[pos]
    pool = alphabet or 'xyz'
    r = next(ch for ch in pool if ch != c)
    if c == '\n':
        return s            # keep the line structure: callers pick another position
    return s[:pos] + r + s[pos + 1:]


def threshold_family(n):
    """(seed, [(label, tags, nb)]): every single edit of the threshold alphabet applied to the size-n seed."""
    seed = seed_threshold(n)
    out = []

    def emit(label, cats, fn, multi=None, cell=0):
        nb = cp(seed)
        fn(nb)
        if canon(nb) == canon(seed):
            return
        kw = {'multi': multi} if multi else {}
        out.append(('thr%d:%s' % (n, label), _tags(cell=cell, cats=cats, kind='threshold', **kw), nb))

    O = ('outputs',)
    outs = lambda nb: nb['cells'][0]['outputs']
    emit('oec1', ('details', 'outputs'), lambda nb: outs(nb)[1].__setitem__('execution_count', 11))
    emit('ometa1', ('metadata', 'outputs'), lambda nb: outs(nb)[1].__setitem__('metadata', {'isolated': True}))
    emit('ometa2', ('metadata', 'outputs'), lambda nb: outs(nb)[2].__setitem__('metadata', {'image/png': {'width': 100}}))
    emit('ec', ('details',), lambda nb: nb['cells'][0].__setitem__('execution_count', 11))

    def rerun(nb):
        nb['cells'][0]['execution_count'] = 11
        outs(nb)[1]['execution_count'] = 11
    emit('rerun-same', (), rerun, multi=(('details',), ('details', 'outputs')))

    def both(nb):
        outs(nb)[1]['execution_count'] = 11
        outs(nb)[1]['metadata'] = {'isolated': True}
    emit('oec1+ometa1', (), both, multi=(('details', 'outputs'), ('metadata', 'outputs')))

    targets = (
        ('stream', lambda nb: (outs(nb)[0], 'text'), _thr_text, None),
        ('plain', lambda nb: (outs(nb)[1]['data'], 'text/plain'), lambda m, v=0: _thr_text(m, 1 + v), None),
        ('html', lambda nb: (outs(nb)[1]['data'], 'text/html'), _thr_html, None),
        ('png', lambda nb: (outs(nb)[2]['data'], 'image/png'), _thr_b64, _B64),
    )
    for name, loc, gen, alpha in targets:
        def at(nb, f, loc=loc):
            d, k = loc(nb)
            d[k] = f(d[k])
        L = len(loc(seed)[0][loc(seed)[1]])
        emit('%s:first' % name, O, lambda nb, at=at, alpha=alpha: at(nb, lambda s: _chg(s, 0, alpha)))
        emit('%s:mid' % name, O, lambda nb, at=at, alpha=alpha, L=L: at(nb, lambda s: _chg(s, L // 2 if s[L // 2] != '\n' else L // 2 - 1, alpha)))
        emit('%s:last' % name, O, lambda nb, at=at, alpha=alpha, L=L: at(nb, lambda s: _chg(s, L - 1 if s[L - 1] != '\n' else L - 2, alpha)))
        if alpha is None:
            emit('%s:grow1' % name, O, lambda nb, at=at: at(nb, lambda s: s + 'q'))
            emit('%s:shrink1' % name, O, lambda nb, at=at: at(nb, lambda s: s[:-1]))
            emit('%s:grow-line' % name, O, lambda nb, at=at: at(nb, lambda s: s + '\nappended line\n'))
        else:
            emit('%s:grow4' % name, O, lambda nb, at=at: at(nb, lambda s: s + 'QUJD'))
            emit('%s:shrink4' % name, O, lambda nb, at=at: at(nb, lambda s: s[:-4]))
        emit('%s:replace' % name, O, lambda nb, at=at, gen=gen, L=L: at(nb, lambda s: gen(L, 5)))
    emit('att:mid', ('attachments',), lambda nb: nb['cells'][1]['attachments']['big.png'].__setitem__(
        'image/png', _chg(nb['cells'][1]['attachments']['big.png']['image/png'], 5, _B64)), cell=1)
    emit('att:replace', ('attachments',), lambda nb: nb['cells'][1]['attachments']['big.png'].__setitem__('image/png', _thr_b64(n, 9)), cell=1)
    emit('out:delete1', O, lambda nb: outs(nb).pop(1))
    emit('out:swap01', O, lambda nb: outs(nb).insert(0, outs(nb).pop(1)))
    emit('out:dup0', O, lambda nb: outs(nb).append(cp(outs(nb)[0])))
    emit('src', ('sources',), lambda nb: nb['cells'][0].__setitem__('source', "show(1)\n"))
    return seed, out
