"""Generic JSON universes (DESIGN 4.1): every family is a finite, explicitly generated list of
documents, de-duplicated by canonical JSON (so that equal-by-== values of different type, such
as 0 / False / 0.0, stay distinct members)."""
import itertools
from .engine import canon

A0 = [0, 1, 2]
A1 = [0, False, 0.0, 1, True, 1.0, None, "", "a"]
HET = [0, "a", [0], [1], {"k": 0}, {"k": 1}]
SEPS = ["\r\n", "\r", "\x0b", "\x0c", "\x1c", "\x1d", "\x1e", "\x85", "\u2028", "\u2029"]
OBJ_VALUES = [0, 1, "x", "x\ny\n", [0], [0, 1], {"c": 0}, {"c": 1}]


def dedupe(docs):
    seen, out = set(), []
    for d in docs:
        k = canon(d)
        if k not in seen:
            seen.add(k)
            out.append(d)
    return out


def lists_over(alphabet, maxlen):
    out = []
    for n in range(maxlen + 1):
        for t in itertools.product(alphabet, repeat=n):
            out.append([_cp(x) for x in t])
    return dedupe(out)


def _cp(x):
    if isinstance(x, list):
        return [_cp(v) for v in x]
    if isinstance(x, dict):
        return {k: _cp(v) for k, v in x.items()}
    return x


SIM_BODIES = ("k = 1", "k = 2", "k = 3", "k = 4", "zz")


def strings(maxlines, bodies=("", "a", "b")):
    out = [""]
    for n in range(1, maxlines + 1):
        for t in itertools.product(bodies, repeat=n):
            full = "".join(b + "\n" for b in t)
            out.append(full)
            out.append(full[:-1])  # last line unterminated
    seen, res = set(), []
    for s in out:
        if s not in seen:
            seen.add(s)
            res.append(s)
    return res


def separator_strings():
    """Two- and three-line strings for each separator Python's splitlines recognises."""
    groups = {}
    for sep in SEPS + ["\n"]:
        g = []
        for body in (("a", "b"), ("a", "X"), ("a", "b", "c"), ("a", "X", "c"), ("a", "b", "b"), ("", "a")):
            g.append(sep.join(body))
            g.append(sep.join(body) + sep)
        # an unchanged head that holds the separator *and* a "\n", followed by a varying tail
        for tail in ("r\n", "X\n", "r\ns\n", "", "r", "r\nX\n"):
            g.append("p" + sep + "q\n" + tail)
        g.append(sep + "\nr\n")
        g.append(sep + "\nX\n")
        # mixtures with \n
        g.append("a\nb" + sep + "c")
        g.append("a" + sep + "b\nc\n")
        g.append("a\nX" + sep + "c")
        seen, res = set(), []
        for s in g:
            if s not in seen:
                seen.add(s)
                res.append(s)
        groups[sep] = res
    return groups


def objects(keys=("a", "b"), values=OBJ_VALUES):
    out = []
    opts = [None] + list(values)
    for combo in itertools.product(opts, repeat=len(keys)):
        o = {}
        for k, v in zip(keys, combo):
            if v is not None:
                o[k] = _cp(v)
        out.append(o)
    return dedupe(out)


def type_probe_objects():
    out = []
    for v in A1:
        out.append({"a": v})
        out.append({"a": [v]})
        out.append({"a": {"b": v}})
        out.append({"a": v, "b": 1})
    out.append({})
    return dedupe(out)


_tree_cache = {}
TREE_ATOMS = [0, 1, "x"]


def _trees_exact(n):
    """All JSON values with exactly n nodes built from lists, objects (keys a,b), atoms."""
    if n in _tree_cache:
        return _tree_cache[n]
    out = []
    if n == 1:
        out.extend(TREE_ATOMS)
        out.append([])
        out.append({})
    else:
        rest = n - 1
        # lists: ordered sequences of children whose sizes sum to rest
        for sizes in _compositions(rest):
            for kids in itertools.product(*[_trees_exact(s) for s in sizes]):
                out.append([_cp(k) for k in kids])
        # objects: key a only, key b only, both
        for key in ("a", "b"):
            for kid in _trees_exact(rest):
                out.append({key: _cp(kid)})
        for sa in range(1, rest):
            sb = rest - sa
            for ka in _trees_exact(sa):
                for kb in _trees_exact(sb):
                    out.append({"a": _cp(ka), "b": _cp(kb)})
    _tree_cache[n] = out
    return out


def _compositions(total):
    if total == 0:
        yield ()
        return
    for first in range(1, total + 1):
        for rest in _compositions(total - first):
            yield (first,) + rest


def trees(maxnodes, containers_only=True):
    out = []
    for n in range(1, maxnodes + 1):
        out.extend(_trees_exact(n))
    if containers_only:
        out = [t for t in out if isinstance(t, (list, dict))]
    return dedupe(out)


def families(tier):
    """name -> list of documents; pairs are the full product inside each family."""
    fam = {}
    fam['lists3'] = lists_over(A0, 3)
    fam['lists4'] = lists_over([0, 1], 4)
    fam['types2'] = lists_over(A1, 2)
    fam['het'] = lists_over(HET, 2 if tier == 'quick' else 3)
    fam['strings'] = strings(3)
    # every string of <= 4 characters over {x, y, CR, LF}: bare CR next to LF (a CR that becomes part of a CRLF when text is appended), empty lines, mixed terminators
    fam['crlf'] = [''.join(t) for n in range(0, 5) for t in itertools.product('xy\r\n', repeat=n)]
    # lines that are similar without being equal (the line aligner's second level): four similar bodies and one dissimilar
    fam['simlines'] = strings(3, bodies=SIM_BODIES) if tier == 'quick' else strings(4, bodies=SIM_BODIES[:3] + SIM_BODIES[4:])
    for sep, g in separator_strings().items():
        fam['sep:%r' % sep] = g
    fam['objects'] = objects()
    fam['typeobj'] = type_probe_objects()
    t = trees(4 if tier == 'quick' else 5)
    fam['trees:list'] = [x for x in t if isinstance(x, list)]
    fam['trees:dict'] = [x for x in t if isinstance(x, dict)]
    return fam


def merge_families(tier):
    """Families for three-way laws (triples = full product inside each family)."""
    fam = {}
    fam['lists3'] = lists_over(A0, 3)
    fam['strings2'] = strings(2)
    fam['crlf3'] = [''.join(t) for n in range(0, 4) for t in itertools.product('x\r\n', repeat=n)]
    fam['simlines2'] = strings(2, bodies=SIM_BODIES[:2] + SIM_BODIES[4:]) + ["k = 1\nk = 2\nk = 3\n", "k = 1\nzz\nk = 2\n"]
    fam['objects1'] = objects(keys=("a", "b"), values=[0, 1, "x", [0], {"c": 0}])
    fam['het2'] = lists_over([0, "a", [0], {"k": 0}], 2)
    if tier == 'thorough':
        t = trees(4)
        fam['trees4:list'] = [x for x in t if isinstance(x, list)][:120]
        fam['strings3'] = strings(3)[:60]
    return fam
