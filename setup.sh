#!/bin/bash
# MANIFEST.setup_cmd: verifies that the interpreters and tools the checks need are present.
# Builds nothing persistent: every check imports nbdime straight from /repo's working tree.
set -e
HERE="$(cd "$(dirname "${BASH_SOURCE[0]}")" && pwd)"
PY=/venv/bin/python
$PY -c "import nbformat, jsonschema, tornado, git; print('python ok', nbformat.__version__)"
PYTHONPATH=/repo $PY -c "import nbdime; print('nbdime importable from /repo', nbdime.__version__)"
for t in git diff diff3; do command -v $t >/dev/null || { echo "missing tool $t"; exit 1; }; done
NODE=""
for c in "$(command -v node || true)" /root/.nvm/versions/node/*/bin/node; do
  [ -x "$c" ] || continue
  v=$("$c" -p 'process.versions.node.split(".").slice(0,2).join(".")')
  maj=${v%%.*}; min=${v##*.}
  if [ "$maj" -gt 22 ] || { [ "$maj" -eq 22 ] && [ "$min" -ge 6 ]; }; then NODE="$c"; fi
done
echo "node for TypeScript (C15): ${NODE:-none}"
mkdir -p "$HERE/evidence" "$HERE/replays"
echo setup ok
