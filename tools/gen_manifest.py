#!/venv/bin/python
"""Generates /verif/MANIFEST.json from the table below (single source of truth)."""
import json, os, sys
ROOT = os.path.dirname(os.path.dirname(os.path.abspath(__file__)))
sys.path.insert(0, ROOT)
from tools.manifest_table import CHECKS, PENDING, REPO_FIX_COMMITS

checks = []
for c in CHECKS:
    pid = c['id']
    checks.append({
        'property_id': pid,
        'quick_cmd': './check %s quick' % pid,
        'thorough_cmd': './check %s thorough' % pid,
        'evidence_file': '/verif/evidence/%s.json' % pid,
        'replay_cmd_template': './check %s --replay {path}' % pid,
        'engine': c.get('engine', 'mc'),
        'level_claimed': {'category': c['category'], 'text': c['text'], 'design_ref': c['design_ref']},
        'level_note': c['note'],
        'technique': c['technique'],
    })
doc = {
    'version': 1,
    'setup_cmd': './setup.sh',
    'hooks': {
        'guard': 'NBDIME_VERIF',
        'enable': 'No source hooks: checks import nbdime from /repo working tree (PYTHONPATH=/repo) and wrap module attributes at run time; ./check exports NBDIME_VERIF=1 for form only',
        'baseline_off_cmd': 'cd /repo && /venv/bin/python -m pytest -ra -q -p no:cacheprovider --timeout=900 --continue-on-collection-errors',
        'source_commits': [],
        'add_only': True,
    },
    'engines': [
        {'name': 'mc', 'path': '/verif/mc', 'serves_properties': [c['id'] for c in CHECKS],
         'kind_free_text': 'hand-written explicit-state / bounded-exhaustive explorer in Python running the real nbdime code: '
                           'deterministic shard list over generated universes (BFS over edit alphabets, products of configurations, '
                           'fault points, event histories), 16 forked workers, commutative merge of counters, fingerprinted violations, replay files'},
    ],
    'checks': checks,
    'not_applicable': [{'property_id': p, 'reason': r} for p, r in PENDING],
    'notes': 'Genuine defects repaired in /repo as fix: commits: %s. Unrepaired ones are listed in /verif/known_findings.jsonl. '
             'See DESIGN.md sections 5, 6 and 11.' % ', '.join(REPO_FIX_COMMITS),
}
with open(os.path.join(ROOT, 'MANIFEST.json'), 'w') as f:
    json.dump(doc, f, indent=1)
    f.write('\n')
import jsonschema
jsonschema.validate(doc, json.load(open('/root/.vp/MANIFEST.schema.json')))
props = [json.loads(l)['id'] for l in open(os.path.join(ROOT, 'properties.jsonl'))]
have = [c['property_id'] for c in checks] + [p for p, _ in PENDING]
assert sorted(have) == sorted(props), (sorted(set(props) - set(have)), sorted(set(have) - set(props)))
print('MANIFEST ok: %d checks, %d not_applicable' % (len(checks), len(PENDING)))
