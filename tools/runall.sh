#!/bin/bash
# usage: tools/runall.sh [quick|thorough] [ids...]   - runs checks one after another, prints one summary line per check and any VIOLATION
TIER=${1:-quick}; shift
IDS=${@:-C01 C02 C03 C04 C05 C06 C07 C08 C09 C10 C11 C12 C13 C14 C15 C16 C17 C18 C19 C20}
for c in $IDS; do
  out=$(/verif/check $c $TIER 2>/dev/null); rc=$?
  echo "$out" | grep -A2 "^VIOLATION" | grep -v "^--"
  echo "$out" | grep "HARNESS-ERROR"
  echo "exit=$rc $(echo "$out" | tail -1)"
done
