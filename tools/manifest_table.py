REPO_FIX_COMMITS = ['4266043', 'e46ad8a', '89eccdd', '0e1b428', 'c3cd5a6', '47ccfae', 'a13fdfd', '21d60ea']

CHECKS = [
    dict(id='C02', category='exploration', design_ref='5 (C02)',
         technique='bounded-exhaustive enumeration of all document pairs in generated families, executed on the real diff/patch, compared with an independent reference patcher',
         text='Every ordered pair of same-container-type JSON documents inside explicitly generated families (lists over small alphabets, type-probe atoms, heterogeneous arrays, strings incl. every Unicode line separator, objects, all nested trees up to 4/5 nodes) is diffed and patched by the real code; result, an independent documented-format patcher and the emptiness clause are compared on canonical JSON (value types distinct). Exhaustive within the bounds, no sampling.',
         note='Bounds: list length <=3/4, strings <=3 lines, trees <=4 (quick) / 5 (thorough) nodes. Trusted: mc/oracles/refpatch.py as reading of docs/source/diffing.rst; json.dumps(sort_keys) as canonical form.'),
    dict(id='C01', category='exploration', design_ref='5 (C01)',
         technique='bounded-exhaustive BFS over a notebook edit alphabet from nine seed notebooks; every (seed, state), (state, seed), depth-1 x depth-1 and seed x seed pair executed on the real diff_notebooks/patch_notebook and on the nbdiff/nbpatch file interface; independent reference patcher as oracle',
         text='All notebook pairs related by edit scripts up to depth 1 (quick) / 2 (thorough) from nine schema-valid seeds (minors 0-5, ids, all cell/output kinds, attachments, JSON/base64/text payloads, mixed line endings), all depth-1 x depth-1 pairs and unrelated seed pairs are diffed and patched by the real code; the result, an independent patcher and the emptiness clause are compared on canonical JSON; the depth-1 slice is also pushed through nbdiff --out / nbpatch -o with real files.',
         note='Bounds: edit alphabet of mc/universe_nb.py (~150 ops per 3-cell notebook), depth <= 2. Trusted: reference patcher, nbformat.read for the expected file content.'),
    dict(id='C03', category='exploration', design_ref='5 (C03)',
         technique='bounded-exhaustive product: all depth-1 x depth-1 edit pairs of seed notebooks x merge strategy configurations x external tool sets, each executed through the real merge_notebooks with a CLI-built namespace',
         text='Every triple (seed, l, r) with l, r one edit away from a seed, under every distinct strategy table derivable from the 282 CLI combinations (quick: one representative per table nbdime itself derives; thorough: all 282 and three tool sets git/diff3/none, plus depth-1 bases) must return (notebook, decisions) within a time limit. Exhaustive over the stated product.',
         note='Bounds: one edit per side (thorough: non-initial bases), 9 seeds. Assumes merge_notebooks reads args only via notebook_merge_strategies and log_level (checked by reading; thorough does not rely on it).'),
    dict(id='C04', category='exploration', design_ref='5 (C04)',
         technique='same exhaustive merge product as C03; every returned merged notebook (and the file written by nbmerge --out on a slice) is validated with jsonschema against the nbformat schema of its declared minor, discriminated by cell/output type',
         text='For every merge of the C03 space that returns, the JSON round trip of the merged notebook must validate against nbformat.v4.<declared minor>.schema.json (cells and outputs validated against the definition their type selects, which yields leaf-level fingerprints). nbmerge --out files on a depth-1 slice are parsed and validated too.',
         note='Trusted: schema files shipped with nbformat; jsonschema Draft4Validator. Duplicate cell ids are counted but not judged (not expressible in the schema).'),
]

_PENDING_REASON = 'check under construction in this round (design in DESIGN.md section 5); not yet claimed'
PENDING = [(p, _PENDING_REASON) for p in
           ['C05', 'C06', 'C07', 'C08', 'C09', 'C10', 'C11', 'C12', 'C13', 'C14',
            'C15', 'C16', 'C17', 'C18', 'C19', 'C20']]
