REPO_FIX_COMMITS = ['4266043']

CHECKS = [
    dict(id='C02', category='exploration', design_ref='5 (C02)',
         technique='bounded-exhaustive enumeration of all document pairs in generated families, executed on the real diff/patch, compared with an independent reference patcher',
         text='Every ordered pair of same-container-type JSON documents inside explicitly generated families (lists over small alphabets, type-probe atoms, heterogeneous arrays, strings incl. every Unicode line separator, objects, all nested trees up to 4/5 nodes) is diffed and patched by the real code; result, an independent documented-format patcher and the emptiness clause are compared on canonical JSON (value types distinct). Exhaustive within the bounds, no sampling.',
         note='Bounds: list length <=3/4, strings <=3 lines, trees <=4 (quick) / 5 (thorough) nodes. Trusted: mc/oracles/refpatch.py as reading of docs/source/diffing.rst; json.dumps(sort_keys) as canonical form.'),
]

_PENDING_REASON = 'check under construction in this round (design in DESIGN.md section 5); not yet claimed'
PENDING = [(p, _PENDING_REASON) for p in
           ['C01', 'C03', 'C04', 'C05', 'C06', 'C07', 'C08', 'C09', 'C10', 'C11', 'C12', 'C13', 'C14',
            'C15', 'C16', 'C17', 'C18', 'C19', 'C20']]
