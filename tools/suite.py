#!/venv/bin/python
"""Run the repository's pinned test suite on a tree and compare with BASELINE.json's stable_pass.

usage: tools/suite.py [repo_dir]   -> exit 0 iff every stable_pass test passes.
"""
import json, os, subprocess, sys, tempfile
import xml.etree.ElementTree as ET

repo = os.path.abspath(sys.argv[1] if len(sys.argv) > 1 else '/repo')
base = json.load(open('/root/.vp/BASELINE.json'))
want = set(base['stable_pass'])
fd, xmlp = tempfile.mkstemp(suffix='.xml')
os.close(fd)
env = dict(os.environ)
env.pop('NBDIME_VERIF', None)
env['PYTHONDONTWRITEBYTECODE'] = '1'
cmd = ['/venv/bin/python', '-m', 'pytest', '-q', '-p', 'no:cacheprovider', '-n', '16', '--timeout=900',
       '--continue-on-collection-errors', '--junitxml=' + xmlp]
r = subprocess.run(cmd, cwd=repo, env=env, stdout=subprocess.PIPE, stderr=subprocess.STDOUT, text=True)
print(r.stdout.strip().splitlines()[-1])
passed = set()
for tc in ET.parse(xmlp).getroot().iter('testcase'):
    bad = any(ch.tag in ('failure', 'error', 'skipped') for ch in tc)
    if not bad:
        passed.add('%s::%s' % (tc.get('classname'), tc.get('name')))
os.unlink(xmlp)
missing = sorted(want - passed)
print('stable_pass=%d passed_now=%d missing=%d' % (len(want), len(passed), len(missing)))
for m in missing[:20]:
    print('  NOT PASSING:', m)
sys.exit(1 if missing else 0)
