#!/bin/bash
# usage: tools/confirmseed.sh <id> [<src dir with patch.diff demo.py meta.json>]
# Confirms a seeded change in a fresh scratch worktree: demo passes on the unchanged tree, fails with the change,
# and the repository's suite still gives the baseline profile.  The worktree is removed afterwards.
ID=$1; SRC=${2:-/tmp/wtout/$ID}
WT=/tmp/wt/confirm-$ID
git -C /repo worktree remove --force $WT 2>/dev/null
git -C /repo worktree add -q --detach $WT HEAD || exit 2
cd $WT
EXTRA=""; grep -q "webapp\|jupyter_server" $SRC/demo.py 2>/dev/null && EXTRA=":/tmp/wtout/stubs"
PYTHONPATH=$WT$EXTRA /venv/bin/python $SRC/demo.py >/tmp/wtout/$ID.clean.log 2>&1; C=$?
git apply --whitespace=nowarn $SRC/patch.diff || { echo "PATCH DOES NOT APPLY"; git -C /repo worktree remove --force $WT; exit 2; }
PYTHONPATH=$WT$EXTRA /venv/bin/python $SRC/demo.py >/tmp/wtout/$ID.mut.log 2>&1; M=$?
echo "demo: unchanged tree exit=$C, changed tree exit=$M"
/verif/tools/suite.py $WT; S=$?
cd /
git -C /repo worktree remove --force $WT
echo "confirm $ID: demo_clean=$C demo_mutant=$M suite=$S"
[ $C -eq 0 ] && [ $M -ne 0 ] && [ $S -eq 0 ]
