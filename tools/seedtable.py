#!/venv/bin/python
"""Run every stored seeded change against its target check (and extra checks given in seeded/<id>/checks.txt) and
write seeded/<id>/meta.json + seeded/RESULTS.md.   usage: tools/seedtable.py [tier] [seed ids...]"""
import json, os, re, subprocess, sys, time
ROOT = '/verif'
tier = sys.argv[1] if len(sys.argv) > 1 else 'quick'
ids = sys.argv[2:] or sorted(d for d in os.listdir(os.path.join(ROOT, 'seeded')) if os.path.isdir(os.path.join(ROOT, 'seeded', d)))
rows = []
for sid in ids:
    d = os.path.join(ROOT, 'seeded', sid)
    prop = sid.split('-')[0]
    checks = [prop]
    extra = os.path.join(d, 'checks.txt')
    if os.path.exists(extra):
        checks += [c for c in open(extra).read().split() if c != prop]
    metap0 = os.path.join(d, 'meta.json')
    if os.path.exists(metap0) and json.load(open(metap0)).get('obsolete'):
        print(sid, 'obsolete (not run)', flush=True)
        continue
    p = subprocess.run([os.path.join(ROOT, 'tools', 'tryseed.py'), os.path.join(d, 'patch.diff')] + checks + ['--tier', tier], stdout=subprocess.PIPE, stderr=subprocess.STDOUT)
    out = p.stdout.decode('utf8', 'replace')
    res = {}
    for m in re.finditer(r'^(C\d+) \w+: exit=(\d+) \((\d+)s\) (\S+)', out, re.M):
        res[m.group(1)] = {'exit': int(m.group(2)), 'seconds': int(m.group(3)), 'verdict': m.group(4)}
    fps = re.findall(r'^      (C\d+\|.*)$', out, re.M)
    agent = {}
    try:
        agent = json.load(open(os.path.join(d, 'agent_meta.json')))
    except Exception:
        pass
    metap = os.path.join(d, 'meta.json')
    meta = json.load(open(metap)) if os.path.exists(metap) else {}
    meta.update({
        'id': sid, 'property': prop,
        'summary': agent.get('summary', meta.get('summary', '')),
        'needs_to_manifest': agent.get('needs', meta.get('needs_to_manifest', '')),
        'files': agent.get('files', meta.get('files', [])),
        'confirmed': 'tools/confirmseed.sh: demo.py exits 0 on the unchanged tree and non-zero with the change; repository suite keeps the baseline profile (all 6285 stable tests pass)',
    })
    meta.setdefault('runs', {})[tier] = {'results': res, 'first_fingerprints': fps[:4], 'when': time.strftime('%Y-%m-%d %H:%M')}
    json.dump(meta, open(metap, 'w'), indent=1)
    rows.append((sid, res, fps[:1]))
    print(sid, {k: v['verdict'] for k, v in res.items()}, flush=True)
# the table is rebuilt from the stored meta.json of every seeded change (so a partial run refreshes only its own rows)
allids = sorted(d for d in os.listdir(os.path.join(ROOT, 'seeded')) if os.path.isdir(os.path.join(ROOT, 'seeded', d)))
with open(os.path.join(ROOT, 'seeded', 'RESULTS-%s.md' % tier), 'w') as f:
    f.write('| seeded change | target check (%s tier) | other checks | first fingerprint | run |\n|---|---|---|---|---|\n' % tier)
    for sid in allids:
        try:
            meta = json.load(open(os.path.join(ROOT, 'seeded', sid, 'meta.json')))
            if meta.get('obsolete'):
                f.write('| %s | no longer a valid seeded change | | %s | |\n' % (sid, meta['obsolete'][:300]))
                continue
            run = meta['runs'][tier]
        except Exception:
            f.write('| %s | not run yet | | | |\n' % sid)
            continue
        res, fp = run['results'], run['first_fingerprints'][:1]
        prop = sid.split('-')[0]
        t = res.get(prop, {}).get('verdict', '?')
        others = ', '.join('%s: %s' % (k, v['verdict']) for k, v in sorted(res.items()) if k != prop)
        f.write('| %s | %s | %s | `%s` | %s |\n' % (sid, t, others, (fp[0] if fp else '')[:110], run.get('when', '')))
