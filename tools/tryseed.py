#!/venv/bin/python
"""Apply a seeded change to /repo, run checks against it, and always undo it.

usage: tools/tryseed.py <patch.diff> <Cxx> [<Cyy> ...] [--tier quick|thorough]
Prints, per check, the exit status and the VIOLATION fingerprints.  /repo is restored with
`git checkout -- .` afterwards (also on error / interrupt).
"""
import subprocess, sys, os, re, time
args = sys.argv[1:]
tier = 'quick'
if '--tier' in args:
    i = args.index('--tier'); tier = args[i + 1]; del args[i:i + 2]
patch, checks = args[0], args[1:]
st = subprocess.run(['git', '-C', '/repo', 'status', '--porcelain'], stdout=subprocess.PIPE).stdout.decode().strip()
if st:
    sys.exit('refusing: /repo has uncommitted changes:\n' + st)
r = subprocess.run(['git', '-C', '/repo', 'apply', '--whitespace=nowarn', patch], stderr=subprocess.PIPE)
if r.returncode != 0:
    sys.exit('patch does not apply: ' + r.stderr.decode())
results = {}
try:
    for c in checks:
        t0 = time.time()
        env = dict(os.environ); env['VERIF_REPLAY_DIR'] = '/tmp/seedreplays'
        p = subprocess.run(['/verif/check', c, tier], stdout=subprocess.PIPE, stderr=subprocess.DEVNULL, cwd='/verif')
        out = p.stdout.decode('utf8', 'replace')
        fps = re.findall(r'fingerprint: (.*)', out)
        whats = re.findall(r'  what: (.*)', out)
        results[c] = (p.returncode, fps)
        print('%s %s: exit=%d (%.0fs) %s' % (c, tier, p.returncode, time.time() - t0, 'CAUGHT' if p.returncode == 1 else ('HARNESS-ERROR' if p.returncode == 2 else 'missed')))
        for f, w in list(zip(fps, whats))[:5]:
            print('     ', f[:200]); print('         ', w[:200])
        if len(fps) > 5:
            print('      ... %d fingerprints in total' % len(fps))
        if p.returncode == 2:
            print(out[-1500:])
finally:
    subprocess.run(['git', '-C', '/repo', 'checkout', '--', '.'])
    # evidence / replays written while the mutant was applied are not kept
    subprocess.run(['git', '-C', '/verif', 'checkout', '--', 'evidence', 'replays'], stderr=subprocess.DEVNULL)
    subprocess.run(['git', '-C', '/verif', 'clean', '-fdq', 'replays'], stderr=subprocess.DEVNULL)
    st = subprocess.run(['git', '-C', '/repo', 'status', '--porcelain'], stdout=subprocess.PIPE).stdout.decode().strip()
    print('repo restored:', 'clean' if not st else st)
